# Build simrt + harness executables. Flavours: asan (default: ASan+UBSan), tsan, plain.
# Objects depend on every included iora header through depfiles, so an edited header rebuilds
# exactly the harnesses that include it.
REPO ?= /repo
FLAVOUR ?= asan
BUILD ?= build
B := $(BUILD)/$(FLAVOUR)
CXX := g++
STD := -std=c++17
INC := -I$(REPO)/include -Isimrt -Iharness
WARN := -Wall -Wno-unused-parameter -Wno-unused-function -Wno-deprecated-declarations
SIMFLAGS := $(STD) -O1 -g -fPIC -fno-omit-frame-pointer $(WARN)
ifeq ($(FLAVOUR),asan)
  SAN := -fsanitize=address,undefined -fno-sanitize-recover=undefined -fno-sanitize=vptr,nonnull-attribute
else ifeq ($(FLAVOUR),tsan)
  SAN := -fsanitize=thread -DSIM_TSAN=1
  WRAPOPS := load store exchange fetch_add fetch_sub compare_exchange_strong compare_exchange_weak
  WRAPFLAGS := $(foreach n,8 32 64,$(foreach o,$(WRAPOPS),-Wl,--wrap=__tsan_atomic$(n)_$(o)))
  EXTRAOBJ := $(B)/sim_tsan_atomic_wrap.o
else
  SAN :=
endif
HFLAGS := $(STD) -O1 -g -fno-omit-frame-pointer $(WARN) $(SAN) $(INC) -DIORA_VERIF_SIM_HARNESS=1
LIBS := -lssl -lcrypto -ldl -lpthread

SIMOBJ := $(B)/sim_core.o $(B)/sim_net.o $(B)/sim_fs.o $(B)/sim_runner.o
HARNESSES := $(patsubst harness/%.cpp,%,$(wildcard harness/c*.cpp))

.PHONY: all clean
all: $(addprefix $(B)/,$(HARNESSES))

$(B)/sim_%.o: simrt/%.cpp simrt/sim.h simrt/internal.h
	@mkdir -p $(B)
	$(CXX) $(SIMFLAGS) -c $< -o $@

$(B)/%.o: harness/%.cpp
	@mkdir -p $(B)
	$(CXX) $(HFLAGS) -MMD -MP -c $< -o $@

$(B)/%: $(B)/%.o $(SIMOBJ) $(EXTRAOBJ)
	$(CXX) $(SAN) $(WRAPFLAGS) -o $@ $< $(SIMOBJ) $(EXTRAOBJ) $(LIBS)

.PRECIOUS: $(B)/%.o $(B)/sim_%.o
.SECONDARY: $(SIMOBJ) $(EXTRAOBJ)
-include $(wildcard $(B)/*.d)

clean:
	rm -rf build
