"""Check table: which harness jobs decide which property, and the evidence texts (DESIGN.md §4)."""

COMMON_STUB = ["thread scheduling (baton scheduler over real threads)", "clock (simulated CLOCK_MONOTONIC/REALTIME, sleeps, timed waits)"]

CHECKS = {
    "C10": {
        "level": "exploration",
        "rule": ("each run = one seeded plan (capacity 1-4, 1-4 producers, 1-4 consumers, blocking/timed/try operations, close at a drawn instant; in two thirds of the runs followed by a hand-off phase on a second queue: 2-4 waiters parked in untimed or 10 s timed dequeue()/queue(), 1..waiters puts or takes of drawn kinds from 1-2 actor threads, then a 100 ms simulated quiet gap with stalls off after which no waiter may be blocked next to an item / free slot) "
                 "executed under one seeded schedule (sticky/random/PCT/round-robin, optional stalls and spurious wake-ups); ring-buffer runs = one producer and one consumer moving 20-420 items through capacity 1-8 with single/move/batch/peek operations and a quiesced resize, with a scheduling point before every atomic operation in the TSan flavour; a run is non-trivial when it "
                 "context-switched at least once; distinct = distinct (harness, interleaving hash over (from-thread,to-thread,sync-point kind) sequence, abstract state hash)"),
        "real": ["iora::core::BlockingQueue, RingBuffer<T,2/4/8>, DynamicRingBuffer (unmodified headers)", "libstdc++ std::mutex/condition_variable/thread/atomic",
                 "ThreadSanitizer's happens-before analysis (tsan jobs): simulator hand-offs are invisible to it, simulated locks are annotated, so reports reflect the program's own synchronisation"],
        "stub": COMMON_STUB,
        "assumptions": ["scheduling points exist only at intercepted synchronisation calls (plus atomics in the race flavour)",
                        "pthread mutex/condvar semantics as modelled in simrt/core.cpp"],
        "jobs": [
            {"harness": "c10_bq", "flavour": "asan", "runs": {"quick": 6000, "thorough": 400000}, "wall": {"quick": 20, "thorough": 300}, "seed_off": 1},
            {"harness": "c10_bq", "flavour": "tsan", "runs": {"quick": 3000, "thorough": 200000}, "wall": {"quick": 15, "thorough": 300}, "seed_off": 2},
            {"harness": "c10_ring", "flavour": "tsan", "runs": {"quick": 6000, "thorough": 600000}, "wall": {"quick": 20, "thorough": 300}, "seed_off": 3},
            {"harness": "c10_ring", "flavour": "asan", "runs": {"quick": 6000, "thorough": 300000}, "wall": {"quick": 10, "thorough": 300}, "seed_off": 4},
        ],
    },
    "C09": {
        "level": "exploration",
        "rule": ("each run = one seeded plan (pool sizes initial 0-3/max 1-8, idle timeout 1-200 ms, queue 1-16, 1-5 submitters using enqueue/tryEnqueue/"
                 "enqueueWithResult with sleeping, throwing and nested-submitting tasks, idle gaps beyond the idle timeout, termination by destructor/stop/"
                 "drain+stop/shutdown racing the submitters) under one seeded schedule with stalls up to 20 ms; non-trivial = at least one context switch; "
                 "distinct = distinct (interleaving hash, abstract state hash)"),
        "real": ["iora::core::ThreadPool (unmodified header)", "libstdc++ thread/mutex/condition_variable/future"],
        "stub": COMMON_STUB,
        "assumptions": ["members are not called concurrently with the destructor (submitters are joined first); stop/drain/shutdown do race submitters",
                        "scheduling points only at intercepted synchronisation calls"],
        "jobs": [
            {"harness": "c09_tp", "flavour": "asan", "runs": {"quick": 50000, "thorough": 2000000}, "wall": {"quick": 50, "thorough": 300}},
        ],
    },
    "C07": {
        "level": "exploration",
        "rule": ("each run = one cell of the TLS configuration matrix drawn with a bias towards one or two deviations from a working set-up: TLS context enabled / mode set or not, "
                 "TLS requested or not, verifyPeer, trust anchor (right CA, other CA, none) x system trust store (empty, holding the right CA), configured minVersion "
                 "(unset, 1.0-1.3) and cipher string (incl. @SECLEVEL=0), own certificate (client: none/valid/untrusted/expired; server: valid/expired/not-yet-valid/self-signed/key "
                 "mismatch), target by IP or by one of two host names, connect vs connectSync, data queued before the handshake ends; peer = OpenSSL with certificate {valid, "
                 "self-signed, expired, not yet valid, other name, other CA} / client certificate {valid, none, untrusted, expired}, protocol ceiling 1.0-1.3, optional client-cert "
                 "demand, or a plaintext peer, a garbage peer (optionally with a TLS record header), a peer that resets mid-handshake, a silent peer; simulated wall clock in 2030, "
                 "2036, 2046 or jumping to 2046 after the contexts were built; drawn segmentation, latency, short reads/writes, ET/LT; three jobs: iora as client, iora as server, "
                 "HttpClient (incl. TLS configuration set after first use, a plain http request to the same host:port before the https one, names resolved through a simulated DNS server). A rule table written from the property text decides per "
                 "cell whether a session MAY exist; observed: onConnect/connectSync/HttpClient result, data delivered by onData, what the OpenSSL peer decrypts and its negotiated "
                 "version, and every byte iora put on the wire (markers in clear, first byte a handshake record)"),
        "real": ["iora::network::TcpEngine TLS paths (initTls, doConnect, accept, driveHandshake, doSend queueing)", "iora::network::Transport", "iora::network::HttpClient + DnsClient (http job)",
                 "OpenSSL 3 (real handshakes, real X.509 verification; randomness made deterministic through RAND_set_rand_method)"],
        "stub": COMMON_STUB + ["kernel TCP/UDP sockets, epoll, eventfd, timerfd, poll, getaddrinfo (simrt/net.cpp) incl. segmentation, latency, short reads/writes, resets", "remote peers (scripted raw-socket / OpenSSL / DNS / WebSocket / HTTP peers written for the harness)"] + ["certificates: a fixed set under certs/ (generated by certs/gen.sh), validity judged against the simulated wall clock"],
        "assumptions": ["sessions that the rule table allows are not required to be established (the property is an only-if); how many were is reported as c07.allowed_and_established",
                        "connections made to an IP literal need no name match (property: 'for connections made to a host name')",
                        "a server's verifyPeer means client certificates are required"],
        "jobs": [
            {"harness": "c07_tls", "mode": "client", "flavour": "asan", "runs": {"quick": 1400, "thorough": 150000}, "wall": {"quick": 90, "thorough": 300}, "seed_off": 1},
            {"harness": "c07_tls", "mode": "server", "flavour": "asan", "runs": {"quick": 1400, "thorough": 150000}, "wall": {"quick": 70, "thorough": 300}, "seed_off": 2},
            {"harness": "c07_tls", "mode": "http", "flavour": "asan", "runs": {"quick": 3000, "thorough": 300000}, "wall": {"quick": 40, "thorough": 300}, "seed_off": 3},
        ],
    },
    "C08": {
        "level": "exploration",
        "rule": ("each run = one seeded plan (1-4 actor threads: schedule with delays of zero/sub-tick/bucket- and level-boundary/far-future, periodic, cancel, "
                 "reschedule, sleeps; handlers that sleep or cancel other timers; termination by stop/drain after a fault-free quiet tail or racing the actors) "
                 "for TimerService, a pool of 2-3 services, or TimingWheel (tick 1-50 ms, 4-16 slots, 2-3 levels), under one seeded schedule with stalls of "
                 "several ticks; all times are simulated, so deadline oracles are exact; non-trivial = at least one context switch; distinct = distinct "
                 "(mode, interleaving hash, abstract state hash)"),
        "real": ["iora::core::TimerService, SteadyTimer-less direct API, TimerServicePool-equivalent set of services, iora::core::TimingWheel (unmodified headers)",
                 "TimerService's epoll/timerfd/eventfd loop runs against the simulated kernel"],
        "stub": COMMON_STUB + ["epoll/timerfd/eventfd (simulated kernel)"],
        "assumptions": ["TimingWheel::advance() is not called manually while the tick thread runs", "one terminating thread (stop/drain are not raced with each other)"],
        "jobs": [
            {"harness": "c08_timers", "mode": "svc", "flavour": "asan", "runs": {"quick": 12000, "thorough": 600000}, "wall": {"quick": 25, "thorough": 300}, "seed_off": 1},
            {"harness": "c08_timers", "mode": "pool", "flavour": "asan", "runs": {"quick": 6000, "thorough": 300000}, "wall": {"quick": 15, "thorough": 300}, "seed_off": 2},
            {"harness": "c08_timers", "mode": "wheel", "flavour": "asan", "runs": {"quick": 15000, "thorough": 800000}, "wall": {"quick": 25, "thorough": 300}, "seed_off": 3},
        ],
    },
    "C01": {
        "level": "exploration",
        "rule": ("each run = one seeded world (socket buffers 1 B..256 KiB, MSS 1..64 KiB, latency/jitter, short reads, injected short writes, EINTR, truncated epoll "
                 "batches, immediate connects; ET or LT, batching on/off, ioReadChunk 1..64 KiB, maxWriteQueue 4..1024; iora as server or client; plain or TLS) with "
                 "1-4 sender threads (payload sizes around 1, MSS, buffer size, several buffers), a scripted raw/OpenSSL peer writing its own keyed stream, reader "
                 "stalls, and an ending drawn from complete-then-close / immediate close / peer RST or close after k bytes / stop(); under one seeded schedule; "
                 "non-trivial = at least one short write, EAGAIN, short read or context switch; distinct = distinct (mode, interleaving hash, abstract state hash)"),
        "real": ["iora::network::Transport + Transport::Impl", "iora::network::TcpEngine", "EventBatchProcessor", "iora::core::TimerService", "OpenSSL 3 (both ends in TLS mode)"],
        "stub": COMMON_STUB + ["kernel TCP sockets, epoll, eventfd, timerfd (simrt/net.cpp)", "the remote peer (scripted blocking socket / OpenSSL client or server)"],
        "assumptions": ["sends start at the announce callback (accept / connect / TLS handshake completion)", "default close-on-backpressure policy",
                        "the simulated kernel produces only behaviour a Linux kernel can produce (short writes only with a following writability edge)"],
        "jobs": [
            {"harness": "c01_tcp", "mode": "plain", "flavour": "asan", "runs": {"quick": 4500, "thorough": 400000}, "wall": {"quick": 40, "thorough": 300}, "seed_off": 1},
            {"harness": "c01_tcp", "mode": "tls", "flavour": "asan", "runs": {"quick": 1500, "thorough": 120000}, "wall": {"quick": 30, "thorough": 300}, "seed_off": 2},
        ],
    },
    "C02": {
        "level": "exploration",
        "rule": ("each run = one seeded plan: 1-4 actor threads issuing connect (accepting / refusing / black-holed / unresolvable / slow-resolving / resetting targets), "
                 "connectViaListener (UDP), close / double close / unknown close, send, flood (backpressure), observe / unobserve, setSessionData, getStats, sleeps; "
                 "0-4 inbound peers (send+close, RST, hold, half-close); idle/age GC with 1 s interval; stop() after a quiet tail or racing the actors, optionally "
                 "followed by a second start/stop epoch; TCP and UDP engines; under one seeded schedule with stalls; non-trivial = at least one context switch; "
                 "distinct = distinct (mode, interleaving hash, abstract state hash)"),
        "real": ["iora::network::Transport + Transport::Impl", "TcpEngine / UdpEngine", "EventBatchProcessor", "TimerService (connect/handshake timers)"],
        "stub": COMMON_STUB + ["kernel sockets, epoll, eventfd, timerfd, getaddrinfo (simrt/net.cpp)", "remote peers (scripted)"],
        "assumptions": ["one user-data object per session (a second setSessionData replaces the first without cleanup by design)",
                        "gauge compared only inside I/O-thread callbacks, where the session table is quiescent"],
        "jobs": [
            {"harness": "c02_lifecycle", "mode": "tcp", "flavour": "asan", "runs": {"quick": 14000, "thorough": 1500000}, "wall": {"quick": 35, "thorough": 300}, "seed_off": 1},
            {"harness": "c02_lifecycle", "mode": "udp", "flavour": "asan", "runs": {"quick": 7000, "thorough": 600000}, "wall": {"quick": 30, "thorough": 300}, "seed_off": 2},
        ],
    },
    "C03": {
        "level": "exploration",
        "rule": ("each run = one seeded world (MSS 1..64 KiB, receive window 16 B..64 KiB, short reads, ET/LT, batching, ioReadChunk 1..64 KiB) with a scripted peer writing a keyed "
                 "stream in drawn chunks then FIN / RST / hold, and an application plan of 6-66 operations: receiveSync (buffer 1..100000, timeout 0..300 ms), setReadMode among "
                 "Sync/Async/Disabled (optionally from a second thread), sleeps; flavours: sync/async mix, with Disabled, small maxSyncReceiveBuffer (overflow); followed by a "
                 "fault-free drain; non-trivial = at least one context switch; distinct = distinct (interleaving hash, abstract state hash)"),
        "real": ["iora::network::Transport + Transport::Impl (receiveSync, setReadMode, onData/onClose handlers)", "TcpEngine", "TimerService"],
        "stub": COMMON_STUB + ["kernel TCP sockets, epoll, eventfd, timerfd (simrt/net.cpp)", "the remote peer (scripted blocking socket)"],
        "assumptions": ["one receiveSync at a time per session (single-waiter contract)", "at most one data callback may be in flight when Disabled takes effect",
                        "overflow runs stay in Sync mode"],
        "jobs": [
            {"harness": "c03_syncrecv", "flavour": "asan", "runs": {"quick": 16000, "thorough": 1500000}, "wall": {"quick": 300, "thorough": 300}},
        ],
    },
    "C04": {
        "level": "exploration",
        "rule": ("each run = 1-8 caller threads issuing 1-3 connectSync / connectSyncCancellable calls (timeouts 1 ms..2 s drawn around the target's SYN-ACK or TLS-handshake delay of "
                 "0.1..400 ms) against accepting, refusing, black-holed, unresolvable, slow-resolving, resetting, TLS-ok, TLS-stalling, TLS-garbage and plaintext-instead-of-TLS targets, "
                 "cancellation tokens fired at drawn instants, engine-level connect/handshake timers of 150/200 ms or 30 s, stop() racing the callers in a quarter of the runs; "
                 "non-trivial = at least one context switch; distinct = distinct (interleaving hash, abstract state hash)"),
        "real": ["iora::network::Transport::connectSync/connectSyncCancellable + Transport::Impl handlers", "TcpEngine (connect path, timers, TLS client handshake)", "TimerService", "OpenSSL 3"],
        "stub": COMMON_STUB + ["kernel TCP sockets, epoll, eventfd, timerfd, getaddrinfo (simrt/net.cpp)", "remote peers (scripted; OpenSSL server for the TLS-ok target)"],
        "assumptions": ["return-time bound = timeout + simulator-injected stall + 60 ms (+2.4 s for host names: the engine's DNS guard, +110 ms for cancellable calls: 100 ms polling)",
                        "the engine's shutdown close reason (Unknown, 'shutdown') counts as the definite 'shutting down' error"],
        "jobs": [
            {"harness": "c04_connectsync", "flavour": "asan", "runs": {"quick": 9000, "thorough": 900000}, "wall": {"quick": 300, "thorough": 300}},
        ],
    },
    "C05": {
        "level": "exploration",
        "rule": ("each run = 2-6 application threads looping over connect, connectSync, receiveSync, setReadMode, send, sendSync, close, addListener, getStats, observe/unobserve, "
                 "address queries against live peers, while one terminating scenario plays out at a drawn time: stop() from a plain thread; stop() and other blocking calls attempted "
                 "inside an I/O-thread callback; the only owner dropped by a plain thread while non-owning callers are parked in receiveSync/connectSync; the sole owner released "
                 "inside a callback (deferred self-destruction); 2-3 start/stop cycles; TCP and UDP engines; ASan/UBSan in the asan jobs, ThreadSanitizer happens-before analysis (simulated locks annotated, simulator hand-offs invisible) in the tsan jobs; non-trivial = at least one context switch; "
                 "distinct = distinct (mode, interleaving hash, abstract state hash)"),
        "real": ["iora::network::Transport + Transport::Impl (teardown handshake, deferred self-destruction)", "TcpEngine / UdpEngine", "EventBatchProcessor", "TimerService"],
        "stub": COMMON_STUB + ["kernel sockets, epoll, eventfd, timerfd (simrt/net.cpp)", "remote peers (scripted)"],
        "assumptions": ["members are not invoked after the object has been destroyed (scenario 2 callers are already inside their final blocking call when the owner lets go)",
                        "a data callback run synchronously by the caller's own Sync->Async flush is not a transport-initiated callback",
                        "call-return bound = the call's own timeout + simulator-injected stall + 100 ms"],
        "jobs": [
            {"harness": "c05_teardown", "mode": "tcp", "flavour": "asan", "runs": {"quick": 4500, "thorough": 800000}, "wall": {"quick": 35, "thorough": 300}, "seed_off": 1},
            {"harness": "c05_teardown", "mode": "udp", "flavour": "asan", "runs": {"quick": 2500, "thorough": 400000}, "wall": {"quick": 20, "thorough": 300}, "seed_off": 2},
            {"harness": "c05_teardown", "mode": "tcp", "flavour": "tsan", "runs": {"quick": 2000, "thorough": 300000}, "wall": {"quick": 25, "thorough": 300}, "seed_off": 3},
            {"harness": "c05_teardown", "mode": "udp", "flavour": "tsan", "runs": {"quick": 1500, "thorough": 150000}, "wall": {"quick": 15, "thorough": 300}, "seed_off": 4},
        ],
    },
    "C06": {
        "level": "exploration",
        "rule": ("each run = a UDP transport with 1-2 listeners, 1-6 raw peers at distinct addresses sending keyed datagrams of 15..65507 bytes with drawn gaps, 1-4 actor threads "
                 "issuing connect, connectViaListener (to peers with or without a session), send (8..65507 bytes), bursts, close, sleeps; idle expiry in a quarter of the runs; "
                 "network exact or lossy (drop/dup/reorder); egress budget of 2 datagrams in a third of the runs so that sendto() returns EAGAIN and the engine must queue; "
                 "in a fifth of the runs one peer floods a listener with 65-300 back-to-back small datagrams while the data handler holds the I/O thread for 0/3/30 ms and is silent afterwards; "
                 "kernel-side record of every datagram; non-trivial = at least one context switch; distinct = distinct (interleaving hash, abstract state hash)"),
        "real": ["iora::network::Transport + UdpEngine", "EventBatchProcessor"],
        "stub": COMMON_STUB + ["kernel UDP sockets, epoll, eventfd, timerfd (simrt/net.cpp) incl. loss, duplication, reordering, EAGAIN", "remote peers (scripted)"],
        "assumptions": ["default ioReadChunk (64 KiB) so that no datagram exceeds the receive buffer", "peer datagrams carry a 15-byte identifying header"],
        "jobs": [
            {"harness": "c06_udp", "flavour": "asan", "runs": {"quick": 12000, "thorough": 1200000}, "wall": {"quick": 45, "thorough": 300}},
        ],
    },
    "C11": {
        "level": "fault_enumeration",
        "rule": ("each run = one seeded history of 1-12 operations (set, set-with-TTL, setBatch, remove, removeWithPrefix, clear, expireAt, persist, compact; values 0..9000 bytes; "
                 "log-size limits 60 B..10 MiB so that compaction also happens implicitly) executed once against the real store with every mutating file operation logged; then "
                 "ALL crash images of that history are enumerated: the directory as of every file operation, plus cuts inside every write (every byte offset for writes <= 128 B, "
                 "field boundaries and drawn offsets for larger ones); each image is reopened by a fresh store, compared key by key with the admissible old/new states, and "
                 "continued with 0-3 more operations, a clean close and another reopen that must match a reference map exactly; JSON mode: set/remove/flush histories with all "
                 "images and write cuts; an evaluation = one history (the counters give images and cuts); distinct = distinct abstract state hash of (images, file ops, history)"),
        "real": ["iora::storage::KVStore (log, snapshot, compaction, load)", "iora::storage::JsonFileStore", "the real file system (per-run scratch directory under /dev/shm)", "libstdc++ fstream/filesystem"],
        "stub": ["the crash itself: images are rebuilt from the logged operation prefix (process-crash model: every completed write survives)", "clock (simulated, TTLs are far in the future here)"],
        "assumptions": ["process-crash model as the property states: no page-cache loss, fsync is a no-op", "a write() is atomic up to the chosen cut (torn at byte granularity)"],
        "jobs": [
            {"harness": "c11_kvcrash", "mode": "kv", "flavour": "asan", "runs": {"quick": 700, "thorough": 60000}, "wall": {"quick": 40, "thorough": 300}, "seed_off": 1},
            {"harness": "c11_kvcrash", "mode": "json", "flavour": "asan", "runs": {"quick": 1200, "thorough": 60000}, "wall": {"quick": 15, "thorough": 300}, "seed_off": 2},
        ],
    },
    "C12": {
        "level": "exploration",
        "rule": ("sequential runs = one seeded history of 5-45 steps over 2-6 keys (incl. a key with an embedded NUL and keys that are prefixes of each other): set, set-with-TTL, "
                 "setBatch (+TTL), remove, removeWithPrefix, clear, expireAt, persist, compact (explicit and through tiny log limits), clean close+reopen, and clock advances aimed "
                 "at each pending expiry (1 ms before, exactly on, 1 ms after, far beyond) both as a sleep (wheel and eviction worker run) and as a wall-clock jump (nothing evicted "
                 "yet); after EVERY step every read path (get, exists, keys, keysWithPrefix, size, getBatch, ttl) is compared with a reference map with absolute expiry at the same "
                 "frozen instant; cache sizes 1-3; concurrent runs = 2-5 threads of get/set/set-with-TTL/remove on 1-3 keys with unique values racing the timing wheel, eviction "
                 "worker and background compaction under a seeded schedule with stalls, checked for real-time-order consistency; non-trivial = at least one context switch"),
        "real": ["iora::storage::KVStore incl. its TimingWheel, eviction worker and compaction thread", "the real file system (scratch directory)"],
        "stub": COMMON_STUB,
        "assumptions": ["sequential mode: simulated time does not advance inside an operation (step cost 0) and CLOCK_REALTIME is millisecond-aligned, so persisted (ms) and in-memory expiries coincide",
                        "only forward clock movement"],
        "jobs": [
            {"harness": "c12_kvmodel", "mode": "seq", "flavour": "asan", "runs": {"quick": 7000, "thorough": 600000}, "wall": {"quick": 35, "thorough": 300}, "seed_off": 1},
            {"harness": "c12_kvmodel", "mode": "conc", "flavour": "asan", "runs": {"quick": 8000, "thorough": 800000}, "wall": {"quick": 15, "thorough": 300}, "seed_off": 2},
        ],
    },
    "C15": {
        "level": "exploration",
        "rule": ("server job: each run = 1-3 connections carrying pipelines of 1-4 generated requests (methods, header-name case, 0-3 attributable fields, no body / Content-Length / "
                 "chunked with six chunk-size patterns, upper/lower-case hex, leading zeros, chunk extensions, trailers, multi-zero last chunk; bodies 0..1500 bytes (6000 thorough) "
                 "that may contain CR, LF and NUL) written to a real HttpServer through the simulated network in separately delivered segments: none, one drawn cut, many drawn "
                 "cuts, cuts around every CRLF, a fixed stride, every byte, or - sweep runs - EVERY single cut position of one small stream, one fresh connection per position "
                 "(strided in quick, all positions in thorough); the last request of a third of the connections is hostile: conflicting / listed / non-numeric / signed / hex / "
                 "overflowing Content-Length, non-hex / signed / 0x / overflowing chunk sizes incl. the size that wraps the scan position, 2 MiB of unterminated header fields or "
                 "of chunks; oracle: handlers saw exactly the method, path, fields and DECODED body encoded, once; a hostile request never reaches a handler and gets an error "
                 "status or a close within 30 simulated seconds; oversize input ends in a close; afterwards a fresh connection is served (I/O thread alive, no exception escaped). "
                 "client job: a scripted peer answers a real HttpClient (GET/HEAD/POST/DELETE, keep-alive reuse) with generated responses (200/201/404/500/204/304, interim 100 and "
                 "103, Content-Length incl. identical duplicates, chunked as above, close-delimited, Connection: close) cut the same ways incl. single-cut sweeps; hostile responses "
                 "must end in an exception, valid ones must be returned with exactly the status, fields and body encoded, each within 20 simulated seconds"),
        "real": ["iora::network::HttpServer request framing (handleIncomingData, findChunkedRequestEnd), HttpRequest::fromWireFormat, worker pool", "iora::network::HttpClient response framing (frameResponse, determineFraming, advanceChunked, parseHeaderBlock)",
                 "iora::network::Transport / TcpEngine underneath both"],
        "stub": COMMON_STUB + ["kernel TCP/UDP sockets, epoll, eventfd, timerfd, poll, getaddrinfo (simrt/net.cpp) incl. segmentation, latency, short reads/writes, resets", "remote peers (scripted raw-socket / OpenSSL / DNS / WebSocket / HTTP peers written for the harness)"],
        "assumptions": ["a request carrying both Transfer-Encoding: chunked and Content-Length is not generated (RFC 9112 lets a server either reject it or let chunked win)",
                        "valid requests that precede a hostile one on the same connection are only checked if they reached a handler (the rejection may close the connection first)",
                        "peak buffering is bounded indirectly: 2 MiB of unterminated input must end in a close (the server's cap is 1 MiB per session); allocator census not implemented"],
        "jobs": [
            {"harness": "c15_http", "mode": "server", "flavour": "asan", "runs": {"quick": 5000, "thorough": 400000}, "wall": {"quick": 45, "thorough": 300}, "seed_off": 1},
            {"harness": "c15_http", "mode": "client", "flavour": "asan", "runs": {"quick": 2500, "thorough": 250000}, "wall": {"quick": 70, "thorough": 300}, "seed_off": 2},
        ],
    },
    "C16": {
        "level": "exploration",
        "rule": ("each run = 1-3 raw client connections, each sending 1-5 (8 thorough) requests - GET/HEAD/POST/PUT/DELETE/OPTIONS, handler kinds ok / throws / empty body / 3-6 KB "
                 "body / 201 / 404 / routed GET+auto-HEAD / 405 / auto-OPTIONS 204, bodies up to 200 bytes, Connection: close on a tenth, HTTP/1.0 or an unparsable request (no "
                 "request-line structure, invalid method token, unsupported version, missing Host, double space) as the last one - all pipelined in one write, one by one with "
                 "drawn gaps, or in drawn groups, to a real HttpServer whose handlers take 0-60 simulated ms, so the seeded scheduler decides which worker finishes first; the bytes "
                 "each client reads are split by an independent reference framer and attributed to requests by the token they echo: every response well-formed and continuing the "
                 "stream exactly (Content-Length = body), exactly one response per request up to the one that ends the connection, none answered twice, statuses as expected (throw "
                 "=> 500), HEAD without body, 204 without length, unparsable => error status or close within 30 simulated s, after a Connection: close request the server closes and "
                 "nothing sent after it is answered, and - judged last - responses in request order"),
        "real": ["iora::network::HttpServer (request extraction, per-connection sequencing, dispatch, response build, close decision)", "iora::core::ThreadPool (2-8 workers)", "iora::network::Transport / TcpEngine"],
        "stub": COMMON_STUB + ["kernel TCP/UDP sockets, epoll, eventfd, timerfd, poll, getaddrinfo (simrt/net.cpp) incl. segmentation, latency, short reads/writes, resets", "remote peers (scripted raw-socket / OpenSSL / DNS / WebSocket / HTTP peers written for the harness)"],
        "assumptions": ["a reset travels behind data the closing side had already transmitted (Linux keeps received data readable); responses larger than the peer's receive window that are cut by a close-with-unread-data reset are therefore not explored",
                        "HTTP/1.0 requests are only sent as the last request of a connection (the property does not say whether the server must close after them)"],
        "jobs": [
            {"harness": "c16_order", "flavour": "asan", "runs": {"quick": 12000, "thorough": 1200000}, "wall": {"quick": 35, "thorough": 300}},
        ],
    },
    "C17": {
        "level": "exploration",
        "rule": ("each run = one or two callers sharing one HttpClient (each caller its own port, requests in sequence) issuing 1-3 (5 thorough) logical requests with drawn method "
                 "(POST, GET, DELETE, HEAD) and retry budget 0-3 against a scripted raw-socket server that executes one planned fault per exchange: none, valid response announcing "
                 "Connection: close but left open, valid response followed by surplus bytes and left open, close-delimited response, reset at accept, reset or FIN after k request "
                 "bytes, reset or FIN after the whole request, response cut at byte j followed by FIN or reset, malformed response (conflicting Content-Length / bad chunk size), "
                 "silence, partial response then silence; the listener may open 50-400 ms late (earlier connects are refused); sweep runs step the fault position over the bytes of "
                 "the request or of the response, one logical request per position (strided in quick, every byte in thorough); the server attributes every byte it receives to "
                 "the logical request in progress: POST reaches the wire in at most one exchange, idempotent methods in at most budget+1, nothing is sent again after a malformed "
                 "response and a malformed response is never returned (except to HEAD), no byte arrives on a connection that announced close or delivered surplus bytes, and "
                 "each call returns within (budget+1) x (connect + 2 x request timeout) + back-off"),
        "real": ["iora::network::HttpClient (performRequest retry loop, executeRequest, lease, eviction, framing)", "iora::network::Transport connectSync/sendSync/receiveSync, TcpEngine"],
        "stub": COMMON_STUB + ["kernel TCP/UDP sockets, epoll, eventfd, timerfd, poll, getaddrinfo (simrt/net.cpp) incl. segmentation, latency, short reads/writes, resets", "remote peers (scripted raw-socket / OpenSSL / DNS / WebSocket / HTTP peers written for the harness)"],
        "assumptions": ["'reached the wire' is judged at the receiving socket: bytes the client handed to its kernel but that were destroyed by a reset before arriving are not counted"],
        "jobs": [
            {"harness": "c17_retry", "flavour": "asan", "runs": {"quick": 2500, "thorough": 250000}, "wall": {"quick": 80, "thorough": 300}},
        ],
    },
    "C18": {
        "level": "exploration",
        "rule": ("each run = one WebSocket connection; the peer (own RFC 6455 encoder/decoder, masked towards the server, unmasked towards the client) sends 1-4 (6 thorough) text or "
                 "binary messages of 0, 1, 2, 5, 125, 126, 127, 300, 1000, 65535, 65536 or 70000 bytes (bounded by the configured maximum), each as 1-4 fragments incl. empty first/last "
                 "fragments, text with multi-byte code points that fragment and read boundaries cut, an eighth of the text messages invalid UTF-8, PING (0-125 byte payloads) and PONG "
                 "frames before, between fragments and after, optionally a CLOSE (1000/1001/3000/4999, with or without reason); the byte stream is delivered uncut, with one drawn "
                 "cut, many drawn cuts, cuts inside every frame header, or every byte apart (streams up to 700 bytes) / a drawn stride; towards the client optionally in the same "
                 "segment as the 101 response; 0-2 application threads keep sending text and binary messages (incl. 125/126/127/65535/65536-byte ones) every 50-3050 us while the "
                 "peer's close arrives or the endpoint itself sends a close at a drawn moment; a quarter of the runs end in a hostile header instead (2^64-1 length, control frame "
                 "with length code 126 or 127, twice the configured maximum, 2^40, PING without FIN, reserved opcode, RSV1, random bytes) followed by 4 x maximum + 1 MiB of data. "
                 "Oracle: messages delivered = messages sent (type, bytes, order) up to the first invalid one, which is never delivered; every byte the endpoint wrote decodes as "
                 "well-formed, minimally encoded, correctly masked frames; pongs carry the pings' payloads in order and none is missing; no TEXT/BINARY/CONTINUATION frame follows "
                 "the endpoint's own CLOSE frame; after the close handshake the server closes; behind a hostile header the heap grows by less than three quarters of what was sent (allocator "
                 "census) and the server still answers a fresh upgrade (I/O thread alive, nothing thrown)"),
        "real": ["iora::network::WebSocketFrame parse/serialize/isValidUtf8", "iora::network::WebSocketServer (upgrade, onUpgradedData, reassembly, ping/pong, close handshake, send gating) on HttpServer", "iora::network::WebSocketClient (upgrade, handleData, reassembly, send gating)",
                 "iora::network::Transport / TcpEngine"],
        "stub": COMMON_STUB + ["kernel TCP/UDP sockets, epoll, eventfd, timerfd, poll, getaddrinfo (simrt/net.cpp) incl. segmentation, latency, short reads/writes, resets", "remote peers (scripted raw-socket / OpenSSL / DNS / WebSocket / HTTP peers written for the harness)"] + ["crypto::SecureRng (mask keys, Sec-WebSocket-Key): getrandom is served from the seeded fault stream"],
        "assumptions": ["a client that sends frames before it has received the 101 response violates RFC 6455 4.1; such streams are not generated",
                        "what an endpoint delivers or answers behind a hostile header is not judged, only that it neither throws nor hoards",
                        "parse(serialize(f)) on its own is a pure function; it is exercised here only through the two endpoints against the independent codec"],
        "jobs": [
            {"harness": "c18_ws", "mode": "server", "flavour": "asan", "runs": {"quick": 6000, "thorough": 600000}, "wall": {"quick": 40, "thorough": 300}, "seed_off": 1},
            {"harness": "c18_ws", "mode": "client", "flavour": "asan", "runs": {"quick": 5000, "thorough": 500000}, "wall": {"quick": 50, "thorough": 300}, "seed_off": 2},
        ],
    },
    "C19": {
        "level": "exploration",
        "rule": ("cache job: each run = one seeded history of 6-65 steps over 6 names (three spellings of one name differing only in case, a name that extends another) x 3 types x 2 "
                 "classes: put (0-4 records, each in a drawn one of the 11 record lists of DnsResult - answer/authority/additional and the typed lists -, TTLs from {0,1,2,5,7,60,300,3600,2^31,2^32-1}), putNegative from an SOA (minimum "
                 "and TTL drawn independently) and with an explicit TTL, get, remove, clear, and clock advances aimed at each pending TTL (999 ms / 1 ms before, exactly on, 1 ms / "
                 "999 ms after) or random; the purge thread runs on the simulated clock and is interleaved by the seeded scheduler; after EVERY step all 36 questions are probed and "
                 "compared with a reference map holding the absolute expiry at the same frozen instant: a hit needs a live entry for exactly that question (c19-wrong-question, "
                 "c19-served-after-ttl) and must return the last answer stored for it (c19-wrong-answer); a miss before expiry is counted, not flagged. "
                 "network job: a real DnsClient (cache on, retry budget 0-2, 600 ms / 900 ms timeouts, 1-2 caller threads) resolves 1-4 (6 thorough) questions of type A, AAAA, SRV, "
                 "NAPTR, MX, TXT, CNAME or PTR against a scripted DNS server (UDP and TCP) on the simulated network with drawn latency, 10 % datagram loss or duplication; each "
                 "response comes from a structure-aware generator with its own encoder and name compressor (always / never / drawn per name, pointing at any earlier suffix, owner "
                 "names in another letter case, authority and glue records, data octets >= 0xC0, empty and 8-bit character strings) and one planned variant: well-formed, truncated "
                 "at a drawn offset, one bit flipped, pointer loop, pointer to itself, pointer beyond the message, forward pointer, answer count exceeding the content, label length "
                 "above 63, RDLENGTH beyond the message, TC on UDP with the full answer on TCP, silence, NXDOMAIN with SOA; oracle: well-formed => exactly the records encoded "
                 "(per-type fields, TTLs, owner names, section counts); pointer loops / out-of-range pointers / silence / NXDOMAIN / answers to another question => an error, never a result; every query returns "
                 "or throws within the time its timeouts and retry policy allow; with TTLs of 1-3 s a repeated query after the TTL must reach the server again"),
        "real": ["iora::network::dns::DnsCache", "iora::util::ExpiringCache incl. its purge thread", "std::chrono::steady_clock (reads the simulated CLOCK_MONOTONIC)",
                 "network job: iora::network::DnsClient, dns::DnsResolver, dns::DnsTransport (UDP + TCP fallback, retry timers), dns::DnsMessage::parse, UdpEngine / TcpEngine"],
        "stub": COMMON_STUB + ["kernel TCP/UDP sockets, epoll, eventfd, timerfd, poll, getaddrinfo (simrt/net.cpp) incl. segmentation, latency, short reads/writes, resets", "remote peers (scripted raw-socket / OpenSSL / DNS / WebSocket / HTTP peers written for the harness)"],
        "assumptions": ["simulated time does not advance inside a cache operation (step cost 0), so store and model see the same instant",
                        "names that differ only by a trailing dot are not used (the property leaves open whether they are the same question)",
                        "the decode clauses are pure functions of the message; they are decided here only as far as the network job's generator and fault plan reach them (messages arrive as datagrams / TCP segments through the real transport) - no separate exhaustive byte-level mutation campaign",
                        "truncated or bit-flipped responses may decode to something or fail: only termination in time and memory safety (ASan/UBSan) are judged for them"],
        "jobs": [
            {"harness": "c19_dnscache", "flavour": "asan", "runs": {"quick": 12000, "thorough": 1500000}, "wall": {"quick": 25, "thorough": 300}},
            {"harness": "c19_dnsnet", "flavour": "asan", "runs": {"quick": 12000, "thorough": 1200000}, "wall": {"quick": 45, "thorough": 300}, "seed_off": 5},
        ],
    },
    "C20": {
        "level": "exploration",
        "rule": ("each run = a scratch tree (nested directories, inside- and outside-pointing symlinks to files and directories, an outside-pointing .gz sibling, secrets outside the "
                 "root and in a sibling directory whose name extends the root's) served by Assets in filesystem-cached, per-request or embedded+external-directory mode; 1-3 lookup "
                 "threads call getStatic/getTemplate with names from a traversal-aware generator and mutator (dot-dot, absolute, repeated/trailing separators, backslash, "
                 "percent-encoding, NUL, long components, link names) while a swapper thread replaces final path components by outside-pointing symlinks and back; every "
                 "lstat/stat/readlink/open/rename/symlink is a scheduling point; non-trivial = at least one context switch; distinct = distinct (interleaving hash, abstract state hash)"),
        "real": ["iora::web::Assets (lexical rejection, weakly_canonical + containment, O_NOFOLLOW read, caches)", "libstdc++ std::filesystem", "the real file system and its symlink semantics"],
        "stub": ["thread scheduling (baton scheduler; path operations are the scheduling points)"],
        "assumptions": ["only FINAL path components are swapped (the code documents intermediate-component swaps as a residual, the property speaks of the final component)",
                        "the cached mode may serve bytes it read before a swap"],
        "jobs": [
            {"harness": "c20_assets", "flavour": "asan", "runs": {"quick": 15000, "thorough": 1500000}, "wall": {"quick": 40, "thorough": 300}},
        ],
    },
}
