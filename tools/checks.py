"""Check table: which harness jobs decide which property, and the evidence texts (DESIGN.md §4)."""

COMMON_STUB = ["thread scheduling (baton scheduler over real threads)", "clock (simulated CLOCK_MONOTONIC/REALTIME, sleeps, timed waits)"]

CHECKS = {
    "C10": {
        "level": "exploration",
        "rule": ("each run = one seeded plan (capacity 1-4, 1-4 producers, 1-4 consumers, blocking/timed/try operations, close at a drawn instant) "
                 "executed under one seeded schedule (sticky/random/PCT/round-robin, optional stalls and spurious wake-ups); a run is non-trivial when it "
                 "context-switched at least once; distinct = distinct (harness, interleaving hash over (from-thread,to-thread,sync-point kind) sequence, abstract state hash)"),
        "real": ["iora::core::BlockingQueue (unmodified header)", "libstdc++ std::mutex/condition_variable/thread"],
        "stub": COMMON_STUB,
        "assumptions": ["scheduling points exist only at intercepted synchronisation calls (plus atomics in the race flavour)",
                        "pthread mutex/condvar semantics as modelled in simrt/core.cpp"],
        "jobs": [
            {"harness": "c10_bq", "flavour": "asan", "runs": {"quick": 4000, "thorough": 200000}, "wall": {"quick": 45, "thorough": 900}},
        ],
    },
}
