#!/usr/bin/env python3
"""Helper to write a sensitivity patch: mkmut.py NAME FILE <<< python list of (old,new) given on stdin as repr."""
import subprocess, shutil, os, sys, ast, tempfile
name, rel = sys.argv[1], sys.argv[2]
edits = ast.literal_eval(sys.stdin.read())
tmp = tempfile.mkdtemp(prefix="mkmut-", dir="/tmp")
os.makedirs(tmp + "/a"); os.makedirs(tmp + "/b")
src = os.environ.get("VERIF_REPO", "/repo") + "/include"
shutil.copytree(src, tmp + "/a/include"); shutil.copytree(src, tmp + "/b/include")
p = tmp + "/b/include/iora/" + rel
s = open(p).read()
for old, new in edits:
    assert s.count(old) >= 1, ("pattern not found", old[:60])
    s = s.replace(old, new, 1)
open(p, "w").write(s)
d = subprocess.run(["diff", "-ruN", "a", "b"], cwd=tmp, stdout=subprocess.PIPE, text=True).stdout
open(os.path.join(os.path.dirname(os.path.dirname(os.path.abspath(__file__))), "mutants", name + ".patch"), "w").write(d)
shutil.rmtree(tmp)
print("wrote", name, len(d), "bytes")
