#!/bin/sh
# keep_seed.sh Cxx short-name [extra link flags]: verifies a sub-agent's demo with and without its change, stores the change under
# seeded/, removes the scratch worktree and runs the property's quick check against the change.
set -e
C=$1; NAME=$2; shift 2
OUT=/tmp/seed-$C-out; WT=/tmp/seed-$C
cd $OUT
g++ -std=c++17 -O1 -I$WT/include demo.cpp -o demo_with -lssl -lcrypto -lpthread "$@" 2>&1 | tail -2
g++ -std=c++17 -O1 -I/repo/include demo.cpp -o demo_without -lssl -lcrypto -lpthread "$@" 2>&1 | tail -2
set +e
./demo_with >/dev/null 2>&1; W=$?
./demo_without >/dev/null 2>&1; WO=$?
set -e
echo "demo with change: exit $W, without: exit $WO"
D=/verif/seeded/$C-$NAME
mkdir -p $D
cp patch.diff demo.cpp meta.json $D/
python3 - <<PY
import json
p='$D/meta.json'
j=json.load(open(p))
j['verified_by_me']={'demo_with_change_exit':$W,'demo_without_change_exit':$WO,'how':'demo.cpp built against $WT (change applied) and against /repo'}
json.dump(j,open(p,'w'),indent=1)
PY
git -C /repo worktree remove --force $WT
rm -rf $OUT
cd /verif
tools/verif mutants --only $C seeded/$C-$NAME/patch.diff 2>&1 | tail -2 | cut -c1-260
