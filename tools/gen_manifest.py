#!/usr/bin/env python3
"""Regenerate MANIFEST.json from tools/checks.py (claimed checks) + the not-applicable table below."""
import json, os, sys
ROOT = os.path.dirname(os.path.dirname(os.path.abspath(__file__)))
sys.path.insert(0, os.path.join(ROOT, "tools"))
from checks import CHECKS

NOT_APPLICABLE = {
    "C13": "pure function of its input text/value: no schedule, clock, I/O or fault for a simulator to control (DESIGN.md §5)",
    "C14": "pure function of the input bytes and limit settings: nothing to schedule or inject (DESIGN.md §5)",
}
LEVEL_TEXT = {
    "C08": "seeded search over schedules, stalls and timer operation plans of the real TimerService / service pool / TimingWheel on the simulated clock and kernel; deadline oracles are exact in simulated time",
    "C09": "seeded search over schedules, stalls and submission/termination plans of the real ThreadPool; exactly-once, future, refusal-reason, no-start-after-stop and max-worker oracles over the recorded history",
    "C10": "seeded search over schedules and operation plans of the real BlockingQueue (and SPSC ring buffers in the race flavour); history oracles (exactly-once, per-producer FIFO in real-time order, capacity, close semantics) plus the deadlock detector",
}
props = [json.loads(l) for l in open(os.path.join(ROOT, "properties.jsonl"))]
checks = []
for p in props:
    pid = p["id"]
    if pid not in CHECKS:
        continue
    c = CHECKS[pid]
    checks.append({
        "property_id": pid,
        "quick_cmd": f"tools/verif check {pid} --tier quick",
        "thorough_cmd": f"tools/verif check {pid} --tier thorough",
        "evidence_file": f"evidence/{pid}.json",
        "replay_cmd_template": "tools/verif replay {path}",
        "engine": "simrt",
        "level_claimed": {"category": c["level"], "text": c.get("level_text") or LEVEL_TEXT.get(pid, "seeded deterministic simulation search with fault injection"), "design_ref": f"DESIGN.md §4 {pid}"},
        "level_note": c.get("level_note", "sampling, not proof; scheduling points only at intercepted calls; kernel/pthread semantics as modelled by simrt; " + "; ".join(c.get("assumptions", []))),
        "technique": c.get("technique", "deterministic simulation with fault injection (seeded schedule/fault search, minimised replay files)"),
    })
na = []
for p in props:
    pid = p["id"]
    if pid in CHECKS:
        continue
    na.append({"property_id": pid, "reason": NOT_APPLICABLE.get(pid, "not claimed yet: its simulation harness is still under construction in this session (no check registered, so nothing is asserted about it)")})
hooks_commits = []
m = {
    "version": 1,
    "setup_cmd": "tools/verif setup",
    "hooks": {
        "guard": "IORA_VERIF_SIM",
        "enable": "no source hook is needed: every seam is a link-time symbol interposition from the harness executables (pthread_*, clocks, sockets, epoll, files, randomness); harnesses include /repo/include headers unmodified (guard name reserved)",
        "baseline_off_cmd": "cmake --build /repo/_build && ctest --test-dir /repo/_build -j8 --timeout 900",
        "source_commits": hooks_commits,
        "add_only": True,
    },
    "engines": [{"name": "simrt", "path": "simrt/", "serves_properties": sorted(CHECKS.keys()),
                 "kind_free_text": "deterministic simulation runtime: baton scheduler over real threads, simulated clock, simulated kernel (TCP/UDP/epoll/eventfd/timerfd), logged file layer with crash images, seeded choice streams, shrinker and replay"}],
    "checks": checks,
    "not_applicable": na,
    "notes": "Genuine defects found and repaired are listed in known_findings.json (status fixed) and DESIGN.md; sensitivity patches in mutants/ and seeded/.",
}
json.dump(m, open(os.path.join(ROOT, "MANIFEST.json"), "w"), indent=1)
print("manifest: claimed", [c["property_id"] for c in checks], "not claimed", [n["property_id"] for n in na])
