#!/usr/bin/env python3
"""Refreshes the generated tables in DESIGN.md (section 0.3 defects table, 0.5 catch table, counts in 0.1)."""
import json, os, re
ROOT = os.path.dirname(os.path.dirname(os.path.abspath(__file__)))
os.chdir(ROOT)
kf = json.load(open('known_findings.json'))['findings']
muts, seeded = {}, {}
for f in sorted(os.listdir('mutants')):
    m = re.match(r'(C\d\d)-(.*)\.patch', f)
    if m: muts.setdefault(m.group(1), []).append(m.group(2))
for d in sorted(os.listdir('seeded')):
    m = re.match(r'(C\d\d)-(.*)', d)
    if m: seeded.setdefault(m.group(1), []).append(m.group(2))
props = ['C01','C02','C03','C04','C05','C06','C07','C08','C09','C10','C11','C12','C15','C16','C17','C18','C19','C20']
s = open('DESIGN.md').read()
# defects table
rows = []
for p in props:
    for f in kf:
        if f['property'] == p and f['status'] == 'fixed':
            line = f['line'].split(' ', 3)[3] if f['line'].startswith('fixed:') else f['what']
            rows.append('| %s | %s | %s |\n' % (p, f['commit'], line.replace('|', '/')))
a = s.index('| property | commit | what failed (oracle) |\n|---|---|---|\n') + len('| property | commit | what failed (oracle) |\n|---|---|---|\n')
b = s.index('\nRecorded, not repaired')
s = s[:a] + ''.join(rows) + s[b:]
# open findings
a = s.index('violation of the same property still exits 1 because matching is by oracle + message regex):\n\n') + len('violation of the same property still exits 1 because matching is by oracle + message regex):\n\n')
b = s.index('\nObservations that are not violations')
s = s[:a] + ''.join('* **%s** (%s, oracle `%s`): %s. %s\n' % (f['id'], f['property'], f['oracle'], f['what'], f.get('detail', '')) for f in kf if f['status'] == 'open') + s[b:]
# catch table
hdr = '| property | hand-written / reverse-fix patches caught (`mutants/<id>-*.patch`) | seeded by a sub-agent (`seeded/`) |\n|---|---|---|\n'
a = s.index(hdr) + len(hdr)
b = s.index('\nSeeded changes that were missed at first')
s = s[:a] + ''.join('| %s | %s | %s |\n' % (p, ', '.join(muts.get(p, [])), ', '.join(seeded.get(p, ['-']))) for p in props) + s[b:]
nm, ns = sum(len(v) for v in muts.values()), sum(len(v) for v in seeded.values())
nfix = sum(1 for f in kf if f['status'] == 'fixed'); nopen = sum(1 for f in kf if f['status'] == 'open')
s = re.sub(r'\* `mutants/` - \d+ sensitivity patches', '* `mutants/` - %d sensitivity patches' % nm, s)
s = re.sub(r'`seeded/` - \d+ changes written', '`seeded/` - %d changes written' % ns, s)
s = re.sub(r'`known_findings.json` - \d+ entries: \d+ `fixed` \(covering the \d+', '`known_findings.json` - %d entries: %d `fixed` (covering the %d' % (len(kf), nfix, len({f["commit"] for f in kf if f.get("commit")})), s)
s = re.sub(r'(\n  repaired two recorded symptoms\), )\d+( `open`\.)', r'\g<1>%d\g<2>' % nopen, s)
s = re.sub(r'against the unmodified code\. \d+ were\nrepaired', 'against the unmodified code. %d were\nrepaired' % len({f["commit"] for f in kf if f.get("commit")}), s)
s = re.sub(r'All \d+ patches and all \d+ seeded', 'All %d patches and all %d seeded' % (nm, ns), s)
open('DESIGN.md', 'w').write(s)
print('DESIGN.md refreshed: %d mutants, %d seeded, %d fixed, %d open' % (nm, ns, nfix, nopen))
