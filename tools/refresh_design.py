#!/usr/bin/env python3
"""Refreshes the generated tables in DESIGN.md (section 0.3 defects table, 0.5 catch table, counts in 0.1)."""
import json, os, re
ROOT = os.path.dirname(os.path.dirname(os.path.abspath(__file__)))
os.chdir(ROOT)
kf = json.load(open('known_findings.json'))['findings']
muts, seeded = {}, {}
for f in sorted(os.listdir('mutants')):
    m = re.match(r'(C\d\d)-(.*)\.patch', f)
    if m: muts.setdefault(m.group(1), []).append(m.group(2))
for d in sorted(os.listdir('seeded')):
    m = re.match(r'(C\d\d)-(.*)', d)
    if m: seeded.setdefault(m.group(1), []).append(m.group(2))
props = ['C01','C02','C03','C04','C05','C06','C07','C08','C09','C10','C11','C12','C15','C16','C17','C18','C19','C20']
s = open('DESIGN.md').read()
# defects table
rows = []
for p in props:
    for f in kf:
        if f['property'] == p and f['status'] == 'fixed':
            line = f['line'].split(' ', 3)[3] if f['line'].startswith('fixed:') else f['what']
            rows.append('| %s | %s | %s |\n' % (p, f['commit'], line.replace('|', '/')))
a = s.index('| property | commit | what failed (oracle) |\n|---|---|---|\n') + len('| property | commit | what failed (oracle) |\n|---|---|---|\n')
b = s.index('\nRecorded, not repaired')
s = s[:a] + ''.join(rows) + s[b:]
# open findings
a = s.index('violation of the same property still exits 1 because matching is by oracle + message regex):\n\n') + len('violation of the same property still exits 1 because matching is by oracle + message regex):\n\n')
b = s.index('\nObservations that are not violations')
s = s[:a] + ''.join('* **%s** (%s, oracle `%s`): %s. %s\n' % (f['id'], f['property'], f['oracle'], f['what'], f.get('detail', '')) for f in kf if f['status'] == 'open') + s[b:]
# catch table
hdr = '| property | hand-written / reverse-fix patches caught (`mutants/<id>-*.patch`) | seeded by a sub-agent (`seeded/`) |\n|---|---|---|\n'
a = s.index(hdr) + len(hdr)
b = s.index('\nSeeded changes that were missed at first')
s = s[:a] + ''.join('| %s | %s | %s |\n' % (p, ', '.join(muts.get(p, [])), ', '.join(seeded.get(p, ['-']))) for p in props) + s[b:]
nm, ns = sum(len(v) for v in muts.values()), sum(len(v) for v in seeded.values())
nfix = sum(1 for f in kf if f['status'] == 'fixed'); nopen = sum(1 for f in kf if f['status'] == 'open')
s = re.sub(r'\* `mutants/` - \d+ sensitivity patches', '* `mutants/` - %d sensitivity patches' % nm, s)
s = re.sub(r'`seeded/` - \d+ changes written', '`seeded/` - %d changes written' % ns, s)
s = re.sub(r'`known_findings.json` - \d+ entries: \d+ `fixed` \(covering the \d+', '`known_findings.json` - %d entries: %d `fixed` (covering the %d' % (len(kf), nfix, len({f["commit"] for f in kf if f.get("commit")})), s)
s = re.sub(r'(\n  repaired two recorded symptoms\), )\d+( `open`\.)', r'\g<1>%d\g<2>' % nopen, s)
s = re.sub(r'against the unmodified code\. \d+ were\nrepaired', 'against the unmodified code. %d were\nrepaired' % len({f["commit"] for f in kf if f.get("commit")}), s)
s = re.sub(r'All \d+ patches and all \d+ seeded', 'All %d patches and all %d seeded' % (nm, ns), s)
open('DESIGN.md', 'w').write(s)
print('DESIGN.md refreshed: %d mutants, %d seeded, %d fixed, %d open' % (nm, ns, nfix, nopen))

# ---- section 9: as-built rules from tools/checks.py
import sys
sys.path.insert(0, os.path.join(ROOT, 'tools'))
import checks
s = open('DESIGN.md').read()
marker = '## 9. As built: the registered checks'
if marker in s:
    s = s[:s.index(marker)].rstrip('\n')
    if s.endswith('---'): s = s[:-3].rstrip('\n')
out = [marker + ' (generated from tools/checks.py)\n\nFor every claimed property: what one run is and what the oracle demands (`rule`), what runs as real\ncode and what is simulated, the assumptions, and the jobs (harness, mode, sanitizer flavour, run\nbudget quick / thorough; thorough is additionally wall-capped at 300 s per job).\n\n']
for pid in sorted(checks.CHECKS):
    c = checks.CHECKS[pid]
    out.append('### %s\n\n' % pid)
    out.append('* **Rule.** %s\n' % re.sub(r'\s+', ' ', c['rule']))
    out.append('* **Real.** %s\n' % '; '.join(c['real']))
    out.append('* **Simulated / stubbed.** %s\n' % '; '.join(c['stub']))
    if c.get('assumptions'): out.append('* **Assumptions.** %s\n' % '; '.join(c['assumptions']))
    jobs = ['`%s`%s [%s] %d / %d runs' % (j['harness'], (' mode ' + j['mode']) if j.get('mode') else '', j.get('flavour', 'asan'), j['runs']['quick'], j['runs']['thorough']) for j in c['jobs']]
    out.append('* **Jobs.** %s\n\n' % '; '.join(jobs))
open('DESIGN.md', 'w').write(s + '\n\n---\n\n' + ''.join(out))
print('section 9 regenerated')
