#!/bin/sh
# Regenerates the certificate set used by the TLS harnesses (simulated clock = 2030-01-01 + run time).
# The generated files are committed; this script documents how they were made.
set -e
O=openssl
$O req -x509 -newkey rsa:2048 -nodes -keyout ca.key -out ca.pem -subj "/CN=iora-verif-ca" -not_before 20250101000000Z -not_after 20450101000000Z -addext "basicConstraints=critical,CA:TRUE" 2>/dev/null
$O req -x509 -newkey rsa:2048 -nodes -keyout otherca.key -out otherca.pem -subj "/CN=iora-verif-other-ca" -not_before 20250101000000Z -not_after 20450101000000Z -addext "basicConstraints=critical,CA:TRUE" 2>/dev/null
mk() { # name subj san cakey capem notbefore notafter
  $O req -newkey rsa:2048 -nodes -keyout $1.key -out $1.csr -subj "$2" 2>/dev/null
  printf "subjectAltName=$3\nbasicConstraints=CA:FALSE\n" > $1.ext
  $O x509 -req -in $1.csr -CA $5 -CAkey $4 -CAcreateserial -out $1.pem -extfile $1.ext -not_before $6 -not_after $7 2>/dev/null
  rm -f $1.csr $1.ext
}
mk server "/CN=localhost" "DNS:localhost,DNS:good.example,IP:127.0.0.1,IP:10.0.0.2" ca.key ca.pem 20250101000000Z 20450101000000Z
mk wrongname "/CN=other.example" "DNS:other.example,IP:10.9.9.9" ca.key ca.pem 20250101000000Z 20450101000000Z
mk expired "/CN=localhost" "DNS:localhost,DNS:good.example,IP:127.0.0.1,IP:10.0.0.2" ca.key ca.pem 20250101000000Z 20280101000000Z
mk notyet "/CN=localhost" "DNS:localhost,DNS:good.example,IP:127.0.0.1,IP:10.0.0.2" ca.key ca.pem 20350101000000Z 20450101000000Z
mk otherca-server "/CN=localhost" "DNS:localhost,DNS:good.example,IP:127.0.0.1,IP:10.0.0.2" otherca.key otherca.pem 20250101000000Z 20450101000000Z
mk client "/CN=verif-client" "DNS:verif-client" ca.key ca.pem 20250101000000Z 20450101000000Z
mk client-untrusted "/CN=verif-client" "DNS:verif-client" otherca.key otherca.pem 20250101000000Z 20450101000000Z
mk client-expired "/CN=verif-client" "DNS:verif-client" ca.key ca.pem 20250101000000Z 20280101000000Z
$O req -x509 -newkey rsa:2048 -nodes -keyout selfsigned.key -out selfsigned.pem -subj "/CN=localhost" -addext "subjectAltName=DNS:localhost,DNS:good.example,IP:127.0.0.1,IP:10.0.0.2" -not_before 20250101000000Z -not_after 20450101000000Z 2>/dev/null
rm -f *.srl
