// An independent DNS wire encoder (with a name compressor that can point at ANY earlier suffix) and a scripted DNS server on the
// simulated network. Nothing here uses iora's encoder or parser.
#pragma once
#include "common.h"
#include "netpeer.h"
#include <atomic>
#include <functional>
#include <map>
#include <thread>

namespace dnsw
{
enum : uint16_t { T_A = 1, T_NS = 2, T_CNAME = 5, T_SOA = 6, T_PTR = 12, T_MX = 15, T_TXT = 16, T_AAAA = 28, T_SRV = 33, T_NAPTR = 35 };

struct Rec
{
  std::string name;
  uint16_t type = T_A, cls = 1;
  uint32_t ttl = 60;
  // typed payload (which fields are used depends on type)
  std::string addr;                 // A: dotted quad; AAAA: 16 raw bytes
  std::string target;               // CNAME/NS/PTR/MX exchange/SRV target/NAPTR replacement/SOA mname
  std::string rname;                // SOA
  uint16_t prio = 0, weight = 0, port = 0; // SRV (prio, weight, port); MX (prio = preference); NAPTR (prio = order, weight = preference)
  std::string flags, service, regexp;      // NAPTR
  std::vector<std::string> txt;            // TXT
  uint32_t serial = 1, refresh = 2, retry = 3, expire = 4, minimum = 5; // SOA
};

struct Writer
{
  std::string b;
  // compression dictionary: lower-cased suffix -> offset
  std::map<std::string, uint16_t> dict;
  // compression policy: 0 never, 1 always (longest known suffix), 2 drawn per name by `coin`
  int policy = 1;
  std::function<bool()> coin;
  void u8(unsigned v) { b.push_back((char)v); }
  void u16(unsigned v) { u8(v >> 8); u8(v & 255); }
  void u32(uint32_t v) { u16(v >> 16); u16(v & 65535); }
  static std::vector<std::string> labels(const std::string& n)
  {
    std::vector<std::string> l;
    std::string cur;
    for (char c : n)
    {
      if (c == '.') { if (!cur.empty()) l.push_back(cur); cur.clear(); }
      else cur += c;
    }
    if (!cur.empty()) l.push_back(cur);
    return l;
  }
  static std::string lower(std::string s) { for (auto& c : s) c = (char)tolower((unsigned char)c); return s; }
  void name(const std::string& n, bool allowCompress = true)
  {
    auto l = labels(n);
    for (size_t i = 0; i < l.size(); i++)
    {
      std::string suffix;
      for (size_t j = i; j < l.size(); j++) suffix += (j > i ? "." : "") + lower(l[j]);
      auto it = dict.find(suffix);
      bool use = allowCompress && it != dict.end() && policy != 0 && (policy == 1 || (coin && coin()));
      if (use) { u16(0xC000 | it->second); return; }
      if (b.size() < 0x3FFF && it == dict.end()) dict[suffix] = (uint16_t)b.size();
      u8((unsigned)l[i].size());
      b += l[i];
    }
    u8(0);
  }
  void charstr(const std::string& s) { u8((unsigned)s.size()); b += s; }
  void rec(const Rec& r)
  {
    name(r.name);
    u16(r.type);
    u16(r.cls);
    u32(r.ttl);
    size_t lenAt = b.size();
    u16(0);
    switch (r.type)
    {
    case T_A: { unsigned a[4] = {0, 0, 0, 0}; sscanf(r.addr.c_str(), "%u.%u.%u.%u", &a[0], &a[1], &a[2], &a[3]); for (auto v : a) u8(v); break; }
    case T_AAAA: b += r.addr.size() == 16 ? r.addr : std::string(16, '\0'); break;
    case T_CNAME: case T_NS: case T_PTR: name(r.target); break;
    case T_MX: u16(r.prio); name(r.target); break;
    case T_SRV: u16(r.prio); u16(r.weight); u16(r.port); name(r.target); break;
    case T_NAPTR: u16(r.prio); u16(r.weight); charstr(r.flags); charstr(r.service); charstr(r.regexp); name(r.target, false); break;
    case T_TXT: for (auto& t : r.txt) charstr(t); break;
    case T_SOA: name(r.target); name(r.rname); u32(r.serial); u32(r.refresh); u32(r.retry); u32(r.expire); u32(r.minimum); break;
    default: b += r.addr; break;
    }
    size_t rl = b.size() - lenAt - 2;
    b[lenAt] = (char)(rl >> 8);
    b[lenAt + 1] = (char)(rl & 255);
  }
};

struct Question { std::string name; uint16_t type = 0, cls = 0; };
struct Query { uint16_t id = 0; uint16_t flags = 0; std::vector<Question> q; bool ok = false; size_t qend = 0; };

// minimal query parser (uncompressed question names, as every stub resolver sends them)
inline Query parse_query(const std::string& m)
{
  Query q;
  if (m.size() < 12) return q;
  auto rd16 = [&](size_t o) { return (uint16_t)(((unsigned char)m[o] << 8) | (unsigned char)m[o + 1]); };
  q.id = rd16(0);
  q.flags = rd16(2);
  unsigned qd = rd16(4);
  size_t o = 12;
  for (unsigned i = 0; i < qd; i++)
  {
    Question x;
    for (;;)
    {
      if (o >= m.size()) return q;
      unsigned l = (unsigned char)m[o++];
      if (l == 0) break;
      if (l > 63 || o + l > m.size()) return q;
      if (!x.name.empty()) x.name += '.';
      x.name.append(m, o, l);
      o += l;
    }
    if (o + 4 > m.size()) return q;
    x.type = rd16(o);
    x.cls = rd16(o + 2);
    o += 4;
    q.q.push_back(x);
  }
  q.qend = o;
  q.ok = true;
  return q;
}

struct Response
{
  uint16_t id = 0;
  unsigned rcode = 0;
  bool tc = false, aa = true;
  std::vector<Question> questions;
  std::vector<Rec> answers, authority, additional;
  int policy = 1;
  std::function<bool()> coin;
  std::string encode() const
  {
    Writer w;
    w.policy = policy;
    w.coin = coin;
    w.u16(id);
    w.u16(0x8000 | (aa ? 0x0400 : 0) | (tc ? 0x0200 : 0) | 0x0100 | 0x0080 | (rcode & 15));
    w.u16((unsigned)questions.size());
    w.u16((unsigned)answers.size());
    w.u16((unsigned)authority.size());
    w.u16((unsigned)additional.size());
    for (auto& q : questions) { w.name(q.name); w.u16(q.type); w.u16(q.cls); }
    for (auto& r : answers) w.rec(r);
    for (auto& r : authority) w.rec(r);
    for (auto& r : additional) w.rec(r);
    return w.b;
  }
};

// A scripted DNS server: UDP and TCP on ip:53. `answer` maps a parsed query to the raw response bytes (empty = stay silent).
struct Server
{
  std::string ip = "10.0.0.53";
  int port = 53;
  std::function<std::string(const Query&, bool tcp)> answer;
  std::atomic<bool> stop{false};
  std::atomic<unsigned> udpQueries{0}, tcpQueries{0};
  std::thread udpThr, tcpThr;
  int ufd = -1, tfd = -1;
  void start()
  {
    ufd = ::socket(AF_INET, SOCK_DGRAM, 0);
    sockaddr_in a = peer::addr(ip.c_str(), port);
    ::bind(ufd, (sockaddr*)&a, sizeof a);
    tfd = peer::listen_on(ip.c_str(), port);
    udpThr = std::thread([this]
    {
      sim::name_thread("dns-udp");
      while (!stop.load())
      {
        char buf[4096];
        sockaddr_in from{};
        socklen_t fl = sizeof from;
        peer::set_rcvtimeo(ufd, 50000000);
        ssize_t k = ::recvfrom(ufd, buf, sizeof buf, 0, (sockaddr*)&from, &fl);
        if (k <= 0) continue;
        udpQueries++;
        Query q = parse_query(std::string(buf, (size_t)k));
        std::string r = answer ? answer(q, false) : std::string();
        if (!r.empty()) ::sendto(ufd, r.data(), r.size(), 0, (sockaddr*)&from, fl);
      }
    });
    tcpThr = std::thread([this]
    {
      sim::name_thread("dns-tcp");
      while (!stop.load())
      {
        int c = peer::accept_one(tfd, 50000000);
        if (c < 0) continue;
        std::string in;
        // one query per connection is enough for a stub resolver's TCP fallback
        for (int i = 0; i < 50 && !stop.load(); i++)
        {
          int r = peer::read_some(c, in, 4096, 100000000);
          if (r == 0 || r == -1) break;
          if (in.size() >= 2)
          {
            size_t need = ((unsigned char)in[0] << 8) | (unsigned char)in[1];
            if (in.size() >= 2 + need)
            {
              tcpQueries++;
              Query q = parse_query(in.substr(2, need));
              std::string resp = answer ? answer(q, true) : std::string();
              if (!resp.empty())
              {
                std::string framed;
                framed.push_back((char)(resp.size() >> 8));
                framed.push_back((char)(resp.size() & 255));
                framed += resp;
                peer::write_all(c, framed);
              }
              in.erase(0, 2 + need);
            }
          }
        }
        ::close(c);
      }
    });
  }
  void shutdown()
  {
    stop.store(true);
    if (udpThr.joinable()) udpThr.join();
    if (tcpThr.joinable()) tcpThr.join();
    if (ufd >= 0) ::close(ufd);
    if (tfd >= 0) ::close(tfd);
  }
};

// convenience: a server answering A queries from a table (everything else NXDOMAIN)
inline std::function<std::string(const Query&, bool)> table_answer(std::map<std::string, std::string> table)
{
  return [table](const Query& q, bool) -> std::string
  {
    if (!q.ok || q.q.empty()) return std::string();
    Response r;
    r.id = q.id;
    r.questions = q.q;
    auto it = table.find(Writer::lower(q.q[0].name));
    if (it == table.end()) r.rcode = 3;
    else if (q.q[0].type == T_A)
    {
      Rec a;
      a.name = q.q[0].name;
      a.type = T_A;
      a.ttl = 60;
      a.addr = it->second;
      r.answers.push_back(a);
    }
    return r.encode();
  };
}
} // namespace dnsw
