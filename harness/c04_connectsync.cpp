// C04: Transport::connectSync / connectSyncCancellable on the simulated kernel.
// success => a live session whose TCP (and TLS) handshake completed and that the transport does not close on the call's behalf;
// otherwise a definite error no later than timeout + slack; global connect/close callbacks only for sessions handed to a caller;
// timed-out / cancelled attempts leave no open connection behind.
#include "common.h"
#include "netpeer.h"
#include "tlsutil.h"
#include "iora/core/logger.hpp"
#include "iora/network/transport.hpp"
#include "iora/network/transport_impl.hpp"

#include <atomic>
#include <map>
#include <mutex>
#include <set>
#include <thread>
#include <vector>

using namespace iora::network;

namespace
{
enum Target { T_ACCEPT, T_REFUSED, T_BLACKHOLE, T_NONAME, T_SLOWNAME, T_RST, T_TLS_OK, T_TLS_STALL, T_TLS_GARBAGE, T_TLS_ON_PLAIN, NTARGETS };
const char* tname[] = {"accept", "refused", "blackhole", "noname", "slowname", "rst-after-accept", "tls-ok", "tls-stall", "tls-garbage", "tls-to-plain-peer"};
struct Call
{
  int target; int delayIdx; uint32_t timeout_ms; bool cancellable; uint32_t cancel_at_us; uint32_t start_us;
  // results
  hx::Span sp; uint64_t t_inv = 0, t_ret = 0, stalled_inv = 0, stalled_ret = 0; bool ok = false; int code = -1; uint64_t sid = 0; std::string msg;
};
struct World
{
  std::shared_ptr<Transport> tr;
  std::mutex mx;
  std::vector<std::pair<uint64_t, uint64_t>> gConnect, gClose; // (stamp, sid) of GLOBAL callbacks
  std::map<uint64_t, int> gCloseCode;
  std::atomic<bool> peersStop{false};
  std::atomic<int> tlsHandshakesDone{0};
  uint64_t stop_inv = 0, stop_ret = 0;
};
World* W;
const uint64_t delays_ns[] = {100000ull, 1000000ull, 5000000ull, 50000000ull, 400000000ull};
const char* delay_ips[] = {"10.0.0.2", "10.0.1.2", "10.0.2.2", "10.0.3.2", "10.0.4.2"};
} // namespace

extern "C" HarnessInfo harness_info() { return {"c04_connectsync", "C04", 30}; }
extern "C" void harness_preinit() { tls::preinit(); }

extern "C" void harness_run()
{
  iora::core::Logger::setLevel(iora::core::Logger::Level::Fatal);
  World w;
  W = &w;
  bool th = hx::thorough();
  tls::init_deterministic(sim::seed());
  // ---- plan
  sim::net::NetConfig nc;
  nc.latency_ns = sim::draw(2) ? 20000 : 300000;
  nc.jitter_ns = nc.latency_ns / 2;
  nc.short_read_permille = sim::draw(3) == 2 ? 300 : 0;
  nc.eintr_ppm = sim::draw(3) == 2 ? 10000 : 0;
  TransportConfig tc;
  tc.useEdgeTriggered = sim::draw(2) == 0;
  tc.batching.enabled = sim::draw(4) == 3;
  tc.connectTimeout = std::chrono::milliseconds(sim::draw(2) ? 30000 : 200);
  tc.handshakeTimeout = std::chrono::milliseconds(sim::draw(2) ? 30000 : 150);
  tc.gcInterval = std::chrono::seconds(1);
  tc.clientTls.enabled = true;
  tc.clientTls.defaultMode = TlsMode::Client;
  tc.clientTls.verifyPeer = false;
  int ncallers = 1 + (int)sim::draw(th ? 8 : 5);
  std::vector<std::vector<Call>> plan(ncallers);
  uint64_t tlsHandshakeDelayNs = delays_ns[sim::draw(5)];
  bool anyName = false;
  for (int c = 0; c < ncallers; c++)
  {
    int n = 1 + (int)sim::draw(3);
    for (int i = 0; i < n; i++)
    {
      Call k{};
      static const int mix[] = {T_ACCEPT, T_ACCEPT, T_ACCEPT, T_REFUSED, T_BLACKHOLE, T_NONAME, T_RST, T_TLS_OK, T_TLS_OK, T_TLS_STALL, T_TLS_GARBAGE, T_TLS_ON_PLAIN, T_SLOWNAME};
      k.target = mix[sim::draw(sim::draw(6) == 0 ? 13 : 12)];
      k.delayIdx = (int)sim::draw(5);
      // timeouts around the SYN-ACK / handshake delay: before, at, just after, well after
      static const uint32_t tos[] = {1, 2, 5, 6, 50, 55, 400, 450, 2000};
      k.timeout_ms = tos[sim::draw(9)];
      k.cancellable = sim::draw(4) == 3;
      k.cancel_at_us = (uint32_t)sim::draw(600000);
      static const uint32_t starts[] = {0, 0, 100, 3000, 60000};
      k.start_us = starts[sim::draw(5)];
      if (k.target == T_NONAME || k.target == T_SLOWNAME) anyName = true;
      plan[c].push_back(k);
    }
  }
  int stopMode = (int)sim::draw(4); // 0-2: stop after quiescence; 3: stop racing the callers
  uint64_t stopDelay = sim::draw(500000) * 1000ull;
  sim::notef("callers=%d ET=%d batch=%d connectTimeout=%lldms handshakeTimeout=%lldms tlsPeerDelay=%.1fms stopMode=%d", ncallers, tc.useEdgeTriggered, tc.batching.enabled,
             (long long)tc.connectTimeout.count(), (long long)tc.handshakeTimeout.count(), tlsHandshakeDelayNs / 1e6, stopMode);
  for (int c = 0; c < ncallers; c++)
  {
    std::string l = "caller " + std::to_string(c) + ":";
    for (auto& k : plan[c])
    {
      char b[128];
      snprintf(b, sizeof b, " %s%s(syn-ack %.1fms, timeout %ums%s)", k.cancellable ? "cancellable:" : "", tname[k.target], delays_ns[k.delayIdx] / 1e6, k.timeout_ms,
               k.cancellable ? (", cancel@" + std::to_string(k.cancel_at_us / 1000) + "ms").c_str() : "");
      l += b;
    }
    sim::notef("%s", l.c_str());
  }
  hx::SchedOpts so;
  so.stall_max_ns = 8000000;
  sim::Config cfg = hx::draw_sched(so);
  cfg.max_steps = 5000000;
  sim::begin(cfg);
  sim::net::configure(nc);
  for (int i = 0; i < 5; i++) sim::net::set_connect_delay(delay_ips[i], 0, delays_ns[i]);
  sim::net::set_blackhole("10.0.9.9", 6000, true);
  sim::net::add_host("slow.example", "10.0.0.2");
  sim::net::set_resolve_delay(2300000000ull);

  // ---- peers: one acceptor thread per behaviour, one handler thread per accepted connection
  std::vector<std::thread> handlers;
  std::mutex hmx;
  struct Port { int port; int fd; int behaviour; };
  std::vector<Port> ports = {{6000, -1, 0}, {6002, -1, 1}, {6003, -1, 2}, {6004, -1, 3}, {6005, -1, 4}};
  std::vector<std::thread> acceptors;
  SSL_CTX* sctx = tls::server_ctx(tls::cert_dir() + "/server.pem", tls::cert_dir() + "/server.key");
  for (auto& p : ports)
  {
    p.fd = peer::listen_on("0.0.0.0", p.port);
    acceptors.emplace_back([&, p]
    {
      sim::name_thread("acceptor");
      while (!w.peersStop.load())
      {
        int c = peer::accept_one(p.fd, 20000000);
        if (c < 0) continue;
        sim::logf("port %d accepted a connection", p.port);
        if (p.behaviour == 1) { peer::rst_close(c); continue; }
        std::lock_guard<std::mutex> g(hmx);
        handlers.emplace_back([&, c, p]
        {
          sim::name_thread("conn");
          std::string tmp;
          SSL* ssl = nullptr;
          if (p.behaviour == 2)
          {
            sim::sleep_ns(tlsHandshakeDelayNs);
            ssl = SSL_new(sctx);
            SSL_set_fd(ssl, c);
            peer::set_rcvtimeo(c, 3000000000ull);
            if (SSL_accept(ssl) == 1) w.tlsHandshakesDone.fetch_add(1);
            else { SSL_free(ssl); ::close(c); return; }
          }
          else if (p.behaviour == 4)
          {
            int rr = peer::read_some(c, tmp, 4096, 100000000);
            bool wo = peer::write_all(c, "HTTP/1.1 400 Bad Request\r\nConnection: close\r\n\r\n");
            sim::logf("garbage peer: read=%d (%zu bytes) wrote=%d", rr, tmp.size(), wo);
          }
          // hold: read (and discard) until EOF / reset / end of run
          for (int i = 0; i < 100000 && !w.peersStop.load(); i++)
          {
            int r;
            if (ssl)
            {
              char b[512];
              peer::set_rcvtimeo(c, 20000000);
              int n = SSL_read(ssl, b, sizeof b);
              if (n > 0) continue;
              int e = SSL_get_error(ssl, n);
              r = (e == SSL_ERROR_WANT_READ) ? -2 : 0;
            }
            else r = peer::read_some(c, tmp, 4096, 20000000);
            if (r == 0 || r == -1) break;
          }
          if (ssl) SSL_free(ssl);
          ::close(c);
          sim::logf("port %d handler closed its connection", p.port);
        });
      }
    });
  }

  // ---- transport
  w.tr = Transport::tcp(tc);
  w.tr->onConnect([&](SessionId sid, const TransportAddress&) { std::lock_guard<std::mutex> g(w.mx); w.gConnect.push_back({sim::stamp(), sid}); });
  w.tr->onClose([&](SessionId sid, const TransportErrorInfo& e) { std::lock_guard<std::mutex> g(w.mx); w.gClose.push_back({sim::stamp(), sid}); w.gCloseCode[sid] = (int)e.code; });
  if (w.tr->start().isErr()) sim::fail("harness", "start failed");

  std::vector<std::thread> callers;
  std::vector<std::thread> cancellers;
  std::mutex cmx;
  for (int c = 0; c < ncallers; c++)
    callers.emplace_back([&, c]
    {
      char nm[16];
      snprintf(nm, sizeof nm, "caller%d", c);
      sim::name_thread(nm);
      for (auto& k : plan[c])
      {
        if (k.start_us) sim::sleep_ns((uint64_t)k.start_us * 1000ull);
        std::string host = delay_ips[k.delayIdx];
        int port = 6000;
        TlsMode tm = TlsMode::None;
        switch (k.target)
        {
        case T_ACCEPT: port = 6000; break;
        case T_REFUSED: port = 6001; break;
        case T_BLACKHOLE: host = "10.0.9.9"; break;
        case T_NONAME: host = "nx.example"; break;
        case T_SLOWNAME: host = "slow.example"; break;
        case T_RST: port = 6002; break;
        case T_TLS_OK: port = 6003; tm = TlsMode::Client; break;
        case T_TLS_STALL: port = 6004; tm = TlsMode::Client; break;
        case T_TLS_GARBAGE: port = 6005; tm = TlsMode::Client; break;
        case T_TLS_ON_PLAIN: port = 6000; tm = TlsMode::Client; break;
        }
        CancellationToken token;
        std::thread canc;
        if (k.cancellable)
          canc = std::thread([&token, at = k.cancel_at_us]
          {
            sim::name_thread("canceller");
            sim::sleep_ns((uint64_t)at * 1000ull);
            token.cancel();
          });
        k.stalled_inv = sim::stalled_ns();
        k.t_inv = sim::now();
        k.sp.inv = sim::stamp();
        auto r = k.cancellable ? w.tr->connectSyncCancellable(host, (uint16_t)port, token, tm, std::chrono::milliseconds(k.timeout_ms))
                               : w.tr->connectSync(host, (uint16_t)port, tm, std::chrono::milliseconds(k.timeout_ms));
        k.sp.ret = sim::stamp();
        k.t_ret = sim::now();
        k.stalled_ret = sim::stalled_ns();
        k.ok = r.isOk();
        if (k.ok) k.sid = r.value();
        else { k.code = (int)r.error().code; k.msg = r.error().message; }
        if (canc.joinable()) canc.join();
        sim::logf("caller%d %s -> %s sid=%llu code=%d after %.3fms", c, tname[k.target], k.ok ? "ok" : "err", (unsigned long long)k.sid, k.code, (k.t_ret - k.t_inv) / 1e6);
      }
    });
  std::thread stopper;
  if (stopMode == 3)
    stopper = std::thread([&]
    {
      sim::name_thread("stopper");
      sim::sleep_ns(stopDelay);
      w.stop_inv = sim::stamp();
      w.tr->stop();
      w.stop_ret = sim::stamp();
    });
  for (auto& t : callers) t.join();
  if (stopper.joinable()) stopper.join();
  // ---- quiescence: faults off, let closes propagate to the peers
  sim::Config q = cfg;
  q.stall_ppm = 0;
  q.create_stall_permille = 0;
  sim::reconfigure(q);
  // The I/O thread may still be working through queued commands (every name lookup blocks it for up to 2 s): a synchronous
  // connect to a refusing port returns only after everything queued before it has been processed (FIFO command queue).
  if (stopMode != 3)
  {
    auto fl = w.tr->connectSync("10.0.0.2", 6001, TlsMode::None, std::chrono::milliseconds(120000));
    if (fl.isOk()) sim::fail("harness", "flush connect succeeded");
  }
  (void)anyName;
  sim::sleep_ns(1200000000ull);
  // live handed-out sessions
  std::set<uint64_t> handed, live;
  for (auto& v : plan) for (auto& k : v) if (k.ok) handed.insert(k.sid);
  {
    std::lock_guard<std::mutex> g(w.mx);
    live = handed;
    for (auto& c : w.gClose) live.erase(c.second);
  }
  size_t established = sim::net::established_count();
  std::string estList;
  for (auto& c : sim::net::connections()) if (!c.a_closed && !c.b_closed) estList += c.a_addr + "->" + c.b_addr + " ";
  if (stopMode != 3)
  {
    if (established != live.size())
      sim::fail("c04-leak", "%zu connections are still established in the kernel but only %zu sessions were handed to callers and are open (%zu handed out in total): %s", established,
                live.size(), handed.size(), estList.c_str());
  }
  else if (established != 0) sim::fail("c04-leak", "%zu connections still established after stop()", established);

  // ---- oracles over calls and global callbacks
  for (auto& v : plan)
    for (auto& k : v)
    {
      if (!k.sp.ret) continue;
      uint64_t elapsed = k.t_ret - k.t_inv;
      uint64_t stall = k.stalled_ret - k.stalled_inv;
      uint64_t budget = (uint64_t)k.timeout_ms * 1000000ull + stall + 60000000ull; // timeout + injected stalls + 60 ms slack
      if (k.target == T_NONAME || k.target == T_SLOWNAME) budget += 2400000000ull; // name resolution is bounded separately (2 s DNS guard)
      if (k.cancellable) budget += 110000000ull; // cancellation is polled every 100 ms
      if (elapsed > budget)
        sim::fail("c04-late", "%s%s returned after %.1f ms with timeout %u ms (injected stall %.1f ms, admissible %.1f ms)", k.cancellable ? "connectSyncCancellable to " : "connectSync to ",
                  tname[k.target], elapsed / 1e6, k.timeout_ms, stall / 1e6, budget / 1e6);
      if (k.ok)
      {
        bool mustFail = k.target == T_REFUSED || k.target == T_BLACKHOLE || k.target == T_NONAME || k.target == T_TLS_STALL || k.target == T_TLS_GARBAGE || k.target == T_TLS_ON_PLAIN;
        if (mustFail) sim::fail("c04-bogus-success", "connectSync to a %s target reported success (sid %llu)", tname[k.target], (unsigned long long)k.sid);
        if (k.sid == 0) sim::fail("c04-bogus-success", "success with session id 0");
        // nobody calls close and these peers hold the connection: the transport itself must not close it
        if ((k.target == T_ACCEPT || k.target == T_TLS_OK || k.target == T_SLOWNAME) && stopMode != 3)
        {
          std::lock_guard<std::mutex> g(w.mx);
          for (auto& c : w.gClose)
            if (c.second == k.sid)
            {
              if (sim::verbose())
                for (auto& ci : sim::net::connections())
                  sim::notef("conn %d %s(fd %d,%s) -> %s(fd %d,%s)", ci.id, ci.a_addr.c_str(), ci.fd_a, ci.a_closed ? "closed" : "open", ci.b_addr.c_str(), ci.fd_b, ci.b_closed ? "closed" : "open");
              sim::fail("c04-closed-after-success", "connectSync to %s returned sid %llu as connected, then the transport closed it (code %d) although neither side asked for it",
                        tname[k.target], (unsigned long long)k.sid, w.gCloseCode[k.sid]);
            }
        }
      }
      else
      {
        static const int definite[] = {(int)TransportError::Connect, (int)TransportError::Resolve, (int)TransportError::Timeout, (int)TransportError::Cancelled,
                                       (int)TransportError::ShuttingDown, (int)TransportError::TLSHandshake, (int)TransportError::TLSIO, (int)TransportError::PeerClosed,
                                       (int)TransportError::Socket, (int)TransportError::GCClosed};
        bool okc = false;
        for (int d : definite) if (d == k.code) okc = true;
        if (k.code == (int)TransportError::Unknown && w.stop_inv && k.msg.find("shutdown") != std::string::npos) okc = true; // the engine's shutdown close reason
        if (!okc) sim::fail("c04-indefinite-error", "connectSync to %s failed with code %d (%s), not a definite error", tname[k.target], k.code, k.msg.c_str());
        if (k.code == (int)TransportError::ShuttingDown && !w.stop_inv) sim::fail("c04-indefinite-error", "ShuttingDown reported although stop() was never called");
        if (k.code == (int)TransportError::Cancelled && !k.cancellable) sim::fail("c04-indefinite-error", "Cancelled reported for a non-cancellable call");
      }
    }
  {
    std::lock_guard<std::mutex> g(w.mx);
    for (auto& c : w.gConnect)
      sim::fail("c04-global-connect", "global connect callback fired for session %llu although every connect in this run was synchronous", (unsigned long long)c.second);
    for (auto& c : w.gClose)
      if (!handed.count(c.second))
        sim::fail("c04-global-close-unknown", "global close callback (code %d) fired for session %llu, an id no synchronous connect ever handed to its caller", w.gCloseCode[c.second],
                  (unsigned long long)c.second);
  }
  // TLS successes need a completed handshake on the peer side
  {
    int tlsOk = 0;
    for (auto& v : plan) for (auto& k : v) if (k.ok && k.target == T_TLS_OK) tlsOk++;
    if (tlsOk > w.tlsHandshakesDone.load()) sim::fail("c04-bogus-success", "%d TLS connects succeeded but the peer completed only %d handshakes", tlsOk, w.tlsHandshakesDone.load());
  }
  if (stopMode != 3) w.tr->stop();
  w.peersStop.store(true);
  for (auto& t : acceptors) t.join();
  for (auto& t : handlers) t.join();
  for (auto& p : ports) ::close(p.fd);
  SSL_CTX_free(sctx);
  size_t nok = 0, ntimeout = 0, ncanc = 0, ntot = 0;
  for (auto& v : plan) for (auto& k : v) { ntot++; if (k.ok) nok++; if (k.code == (int)TransportError::Timeout) ntimeout++; if (k.code == (int)TransportError::Cancelled) ncanc++; }
  sim::count("c04.calls", ntot);
  sim::count("c04.success", nok);
  sim::count("c04.timeout", ntimeout);
  sim::count("c04.cancelled", ncanc);
  sim::state_mix(nok * 131 + ntimeout * 17 + ncanc * 7 + ntot);
  w.tr.reset();
  sim::finish_ok();
}
