// C02: session lifecycle of iora::network::Transport on the simulated kernel (modes "tcp", "udp").
// Per-identifier automaton over the callback log: exactly one close for every identifier the application saw, nothing before
// announce or after close, fresh identifiers, close fan-out order (global, observers in registration order, cleanup), gauge.
#include "common.h"
#include "netpeer.h"
#include "iora/core/logger.hpp"
#include "iora/network/transport.hpp"
#include "iora/network/transport_impl.hpp"

#include <atomic>
#include <map>
#include <mutex>
#include <set>
#include <thread>
#include <vector>

using namespace iora::network;

namespace
{
enum EvType { E_RET_CONNECT, E_ACCEPT, E_CONNECT, E_DATA, E_CLOSE, E_OBS, E_CLEANUP };
struct Ev { uint64_t st; int type; uint64_t sid; int aux; size_t gauge; int epoch; };
struct Obs { uint64_t oid = 0; uint64_t sid = 0; hx::Span reg, unreg; bool unreg_called = false, unreg_ok = false; int idx = 0; };
struct UData { uint64_t sid; hx::Span set; int idx; };
struct World
{
  bool udp = false;
  std::shared_ptr<Transport> tr;
  std::mutex mx; // protects the logs below (also adds scheduling points inside callbacks)
  std::vector<Ev> log;
  std::vector<uint64_t> slots; // identifiers known to the application (connect returns + announces)
  std::vector<std::unique_ptr<Obs>> obs;
  std::vector<std::unique_ptr<UData>> udata;
  std::set<uint64_t> dataSet;
  int epoch = 0;
  std::atomic<bool> running{false};
  uint64_t stop_inv = 0, stop_ret = 0;
  std::atomic<bool> peersStop{false};
  ListenerId lid = 0;
};
World* W;

void record(int type, uint64_t sid, int aux, bool sampleGauge)
{
  World& w = *W;
  size_t g = (size_t)-1;
  if (sampleGauge) g = w.tr->getStats().sessionsCurrent;
  std::lock_guard<std::mutex> lk(w.mx);
  w.log.push_back({sim::stamp(), type, sid, aux, g, w.epoch});
  static const char* tn[] = {"ret-connect", "accept", "connect", "data", "close", "observer", "cleanup"};
  sim::logf("%s sid=%llu aux=%d gauge=%zd", tn[type], (unsigned long long)sid, aux, (ssize_t)g);
  if (type == E_RET_CONNECT || type == E_ACCEPT || type == E_CONNECT)
  {
    bool known = false;
    for (auto s : w.slots) if (s == sid) known = true;
    if (!known) w.slots.push_back(sid);
  }
}
uint64_t pick_slot(uint64_t r)
{
  World& w = *W;
  std::lock_guard<std::mutex> lk(w.mx);
  if (w.slots.empty()) return 0;
  return w.slots[r % w.slots.size()];
}
enum OpK { CONNECT_OK, CONNECT_REFUSED, CONNECT_BLACKHOLE, CONNECT_NONAME, CONNECT_SLOWNAME, CONNECT_RSTPEER, CLOSE, CLOSE_TWICE, CLOSE_UNKNOWN, SEND, FLOOD, OBSERVE, UNOBSERVE, SETDATA, STATS, SLEEP, VIA_LISTENER, CONNECT_SEND, NOPS };
struct Op { int k; uint64_t r; uint32_t gap_us; };
} // namespace

extern "C" HarnessInfo harness_info() { return {"c02_lifecycle", "C02", 30}; }

extern "C" void harness_run()
{
  iora::core::Logger::setLevel(iora::core::Logger::Level::Fatal);
  World w;
  W = &w;
  w.udp = std::string(sim::mode()) == "udp";
  bool th = hx::thorough();
  // ---- plan
  sim::net::NetConfig nc;
  static const size_t bufs[] = {65536, 64, 1000, 4096};
  nc.sndbuf = bufs[sim::draw(4)];
  nc.rcvbuf = bufs[sim::draw(4)];
  nc.latency_ns = sim::draw(2) ? 50000 : 2000000;
  nc.jitter_ns = nc.latency_ns / 2;
  nc.short_read_permille = sim::draw(2) ? 200 : 0;
  nc.connect_immediate_permille = sim::draw(3) == 2 ? 400 : 0;
  nc.epoll_truncate_permille = sim::draw(3) == 2 ? 300 : 0;
  nc.eintr_ppm = sim::draw(3) == 2 ? 10000 : 0;
  TransportConfig tc;
  tc.useEdgeTriggered = sim::draw(2) == 0;
  tc.batching.enabled = sim::draw(3) == 2;
  tc.maxWriteQueue = sim::draw(2) ? 1024 : 3;
  tc.connectTimeout = std::chrono::milliseconds(sim::draw(2) ? 300 : 1500);
  tc.gcInterval = std::chrono::seconds(1);
  tc.idleTimeout = std::chrono::seconds(sim::draw(3) == 0 ? 2 : 600);
  tc.maxConnAge = std::chrono::seconds(sim::draw(4) == 0 ? 3 : 0);
  int nact = 1 + (int)sim::draw(th ? 4 : 3);
  std::vector<std::vector<Op>> plan(nact);
  for (int a = 0; a < nact; a++)
  {
    int n = 3 + (int)sim::draw(th ? 20 : 10);
    for (int i = 0; i < n; i++)
    {
      Op o;
      static const int tcpMix[] = {CONNECT_OK, CONNECT_OK, CONNECT_OK, CONNECT_REFUSED, CONNECT_BLACKHOLE, CONNECT_NONAME, CONNECT_RSTPEER, CLOSE, CLOSE, CLOSE_TWICE, CLOSE_UNKNOWN,
                                   SEND, SEND, FLOOD, OBSERVE, OBSERVE, UNOBSERVE, SETDATA, STATS, SLEEP, CONNECT_SEND, CONNECT_SLOWNAME};
      static const int udpMix[] = {CONNECT_OK, CONNECT_OK, CONNECT_NONAME, VIA_LISTENER, VIA_LISTENER, CLOSE, CLOSE, CLOSE_TWICE, CLOSE_UNKNOWN, SEND, SEND, SEND, OBSERVE, OBSERVE,
                                   UNOBSERVE, SETDATA, STATS, SLEEP, SLEEP, CONNECT_REFUSED, FLOOD, SLEEP};
      o.k = w.udp ? udpMix[sim::draw(22)] : tcpMix[sim::draw(sim::draw(8) == 0 ? 22 : 21)];
      o.r = sim::draw(1u << 20);
      static const uint32_t gaps[] = {0, 0, 50, 500, 5000, 50000};
      o.gap_us = gaps[sim::draw(6)];
      if (o.k == SLEEP) o.gap_us = (uint32_t)(1000 * (1 + sim::draw(w.udp ? 400 : 1200)));
      plan[a].push_back(o);
    }
  }
  int npeers = (int)sim::draw(th ? 5 : 4);
  struct PeerPlan { uint32_t delay_us; int behaviour; uint32_t bytes; uint32_t hold_us; };
  std::vector<PeerPlan> pplan(npeers);
  for (auto& p : pplan)
  {
    p.delay_us = (uint32_t)sim::draw(300000);
    p.behaviour = (int)sim::draw(5); // 0 send+close, 1 rst, 2 hold, 3 half-close then wait, 4 send then hold
    p.bytes = (uint32_t)sim::draw(3000);
    p.hold_us = (uint32_t)sim::draw(1500000);
  }
  std::vector<int> acceptBehaviour(16);
  for (auto& b : acceptBehaviour) b = (int)sim::draw(6); // 0 hold, 1 close at once, 2 rst at once, 3 send then hold, 4 never read, 5 read then close
  int stopMode = (int)sim::draw(3); // 0 stop after actors joined, 1 stop racing actors at a drawn time, 2 as 1 plus a second epoch
  uint64_t stopDelay = sim::draw(1500000) * 1000ull;
  sim::notef("%s actors=%d inboundPeers=%d ET=%d batch=%d maxWQ=%zu connectTimeout=%lldms idle=%llds maxAge=%llds stopMode=%d stopDelay=%llums", w.udp ? "UDP" : "TCP", nact, npeers,
             tc.useEdgeTriggered, tc.batching.enabled, tc.maxWriteQueue, (long long)tc.connectTimeout.count(), (long long)tc.idleTimeout.count(), (long long)tc.maxConnAge.count(), stopMode,
             (unsigned long long)stopDelay / 1000000);
  static const char* opn[] = {"connect", "connect-refused", "connect-blackhole", "connect-noname", "connect-slowname", "connect-rstpeer", "close", "close-twice", "close-unknown",
                              "send", "flood", "observe", "unobserve", "setdata", "stats", "sleep", "via-listener", "connect+send"};
  for (int a = 0; a < nact; a++)
  {
    std::string l = "actor " + std::to_string(a) + ":";
    for (auto& o : plan[a]) l += std::string(" ") + opn[o.k];
    sim::notef("%s", l.c_str());
  }
  hx::SchedOpts so;
  so.stall_max_ns = 30000000;
  sim::Config cfg = hx::draw_sched(so);
  cfg.max_steps = 5000000;
  sim::begin(cfg);
  sim::net::configure(nc);
  sim::net::add_host("slow.example", "10.0.0.2");
  sim::net::set_blackhole("10.0.0.3", 6000, true);

  // ---- transport
  tc.protocol = w.udp ? Protocol::UDP : Protocol::TCP;
  w.tr = w.udp ? Transport::udp(tc) : Transport::tcp(tc);
  w.tr->onAccept([&](SessionId sid, const TransportAddress&) { record(E_ACCEPT, sid, 0, true); });
  w.tr->onConnect([&](SessionId sid, const TransportAddress&) { record(E_CONNECT, sid, 0, true); });
  w.tr->onData([&](SessionId sid, iora::core::BufferView d, std::chrono::steady_clock::time_point) { record(E_DATA, sid, (int)d.size(), true); });
  w.tr->onClose([&](SessionId sid, const TransportErrorInfo& e) { record(E_CLOSE, sid, (int)e.code, true); });
  auto startEpoch = [&]
  {
    auto sr = w.tr->start();
    if (sr.isErr()) sim::fail("harness", "start failed: %s", sr.error().message.c_str());
    auto lr = w.tr->addListener("127.0.0.1", 5000, TlsMode::None);
    if (lr.isErr()) sim::fail("harness", "addListener failed: %s", lr.error().message.c_str());
    w.lid = lr.value();
    w.running.store(true);
  };
  startEpoch();

  // ---- peer side: a target listener (TCP) / echo socket (UDP) on 10.0.0.2:6000, a resetting listener on :6002, inbound peers
  int tfd = -1, rfd = -1, ufd = -1;
  if (!w.udp)
  {
    tfd = peer::listen_on("10.0.0.2", 6000);
    rfd = peer::listen_on("10.0.0.2", 6002);
  }
  else
  {
    ufd = ::socket(AF_INET, SOCK_DGRAM, 0);
    sockaddr_in a = peer::addr("10.0.0.2", 6000);
    ::bind(ufd, (sockaddr*)&a, sizeof a);
  }
  std::thread target([&]
  {
    sim::name_thread("target");
    std::vector<int> held;
    int n = 0;
    while (!w.peersStop.load())
    {
      if (w.udp)
      {
        char b[2048];
        sockaddr_in from{};
        socklen_t fl = sizeof from;
        peer::set_rcvtimeo(ufd, 20000000);
        ssize_t k = ::recvfrom(ufd, b, sizeof b, 0, (sockaddr*)&from, &fl);
        if (k > 0 && (n++ % 2) == 0) ::sendto(ufd, b, (size_t)k, 0, (sockaddr*)&from, fl); // echo every other datagram
        continue;
      }
      int r = peer::accept_one(rfd, 1000000);
      if (r >= 0) peer::rst_close(r);
      int c = peer::accept_one(tfd, 10000000);
      if (c < 0) continue;
      int b = acceptBehaviour[n++ % 16];
      switch (b)
      {
      case 1: ::close(c); break;
      case 2: peer::rst_close(c); break;
      case 3: peer::write_all(c, hx::keyed_bytes(7, 700)); held.push_back(c); break;
      case 5: { std::string tmp; peer::read_some(c, tmp, 4096, 20000000); ::close(c); break; }
      default: held.push_back(c); break; // 0 hold, 4 never read
      }
    }
    for (int c : held) ::close(c);
  });
  std::vector<std::thread> inbound;
  for (int i = 0; i < npeers; i++)
    inbound.emplace_back([&, i]
    {
      sim::name_thread("inpeer");
      PeerPlan p = pplan[i];
      sim::sleep_ns((uint64_t)p.delay_us * 1000ull);
      if (w.udp)
      {
        int fd = ::socket(AF_INET, SOCK_DGRAM, 0);
        sockaddr_in me = peer::addr("10.0.1.1", 7000 + i), to = peer::addr("127.0.0.1", 5000);
        ::bind(fd, (sockaddr*)&me, sizeof me);
        int n = 1 + (int)(p.bytes % 4);
        for (int k = 0; k < n; k++)
        {
          std::string d = hx::keyed_bytes(100 + i, 1 + p.bytes % 900);
          ::sendto(fd, d.data(), d.size(), 0, (sockaddr*)&to, sizeof to);
          sim::sleep_ns((uint64_t)(p.hold_us / 4) * 1000ull);
        }
        ::close(fd);
        return;
      }
      int fd = peer::connect_to("127.0.0.1", 5000, 1000000000ull);
      if (fd < 0) return;
      std::string tmp;
      switch (p.behaviour)
      {
      case 0: peer::write_all(fd, hx::keyed_bytes(100 + i, p.bytes)); ::close(fd); break;
      case 1: sim::sleep_ns((uint64_t)p.hold_us * 100ull); peer::rst_close(fd); break;
      case 3: peer::write_all(fd, hx::keyed_bytes(100 + i, p.bytes)); ::shutdown(fd, SHUT_WR); while (!w.peersStop.load() && peer::read_some(fd, tmp, 4096, 50000000) == -2) {} ::close(fd); break;
      default:
        if (p.behaviour == 4) peer::write_all(fd, hx::keyed_bytes(100 + i, p.bytes));
        for (uint64_t waited = 0; !w.peersStop.load() && waited < (uint64_t)p.hold_us * 1000ull * 20; waited += 20000000) { int r = peer::read_some(fd, tmp, 4096, 20000000); if (r == 0 || r == -1) break; }
        ::close(fd);
        break;
      }
    });

  // ---- actors
  auto run_ops = [&](int a)
  {
    char nm[16];
    snprintf(nm, sizeof nm, "actor%d", a);
    sim::name_thread(nm);
    for (auto& o : plan[a])
    {
      auto do_connect = [&](const char* host, int port)
      {
        auto r = w.tr->connect(host, (uint16_t)port, TlsMode::None);
        if (r.isOk()) record(E_RET_CONNECT, r.value(), 0, false);
      };
      switch (o.k)
      {
      case CONNECT_OK: do_connect("10.0.0.2", 6000); break;
      case CONNECT_SEND:
      {
        // the usual client pattern: connect and send the request at once, on the id connect() returned
        auto r = w.tr->connect("10.0.0.2", 6000, TlsMode::None);
        if (r.isOk())
        {
          record(E_RET_CONNECT, r.value(), 0, false);
          std::string d = hx::keyed_bytes(o.r, 200 + o.r % 6000);
          w.tr->send(r.value(), d.data(), d.size());
        }
        break;
      }
      case CONNECT_REFUSED: do_connect("10.0.0.2", 6001); break;
      case CONNECT_BLACKHOLE: do_connect("10.0.0.3", 6000); break;
      case CONNECT_NONAME: do_connect("nx.example", 6000); break;
      case CONNECT_SLOWNAME: sim::net::set_resolve_delay(2500000000ull); do_connect("slow.example", 6000); break;
      case CONNECT_RSTPEER: do_connect("10.0.0.2", 6002); break;
      case VIA_LISTENER:
      {
        auto r = w.tr->connectViaListener(w.lid, "10.0.0.2", 6000);
        if (r.isOk()) record(E_RET_CONNECT, r.value(), 1, false);
        break;
      }
      case CLOSE: { uint64_t s = pick_slot(o.r); if (s) w.tr->close(s); break; }
      case CLOSE_TWICE: { uint64_t s = pick_slot(o.r); if (s) { w.tr->close(s); w.tr->close(s); } break; }
      case CLOSE_UNKNOWN: w.tr->close(900000 + o.r % 100); break;
      case SEND: { uint64_t s = pick_slot(o.r); if (s) { std::string d = hx::keyed_bytes(o.r, 1 + o.r % 2000); w.tr->send(s, d.data(), d.size()); } break; }
      case FLOOD:
      {
        uint64_t s = pick_slot(o.r);
        if (s)
        {
          std::string d = hx::keyed_bytes(o.r, w.udp ? 1200 : 3000);
          for (int k = 0; k < 12; k++) w.tr->send(s, d.data(), d.size());
        }
        break;
      }
      case OBSERVE:
      {
        uint64_t s = pick_slot(o.r);
        if (!s) break;
        Obs* ob;
        {
          std::lock_guard<std::mutex> lk(w.mx);
          w.obs.emplace_back(new Obs());
          ob = w.obs.back().get();
          ob->idx = (int)w.obs.size() - 1;
          ob->sid = s;
        }
        int idx = ob->idx;
        ob->reg.inv = sim::stamp();
        ob->oid = w.tr->observe(s, [idx](SessionId sid, const TransportErrorInfo&) { record(E_OBS, sid, idx, false); });
        ob->reg.ret = sim::stamp();
        break;
      }
      case UNOBSERVE:
      {
        Obs* ob = nullptr;
        {
          std::lock_guard<std::mutex> lk(w.mx);
          if (!w.obs.empty()) ob = w.obs[o.r % w.obs.size()].get();
        }
        if (!ob || ob->unreg_called || ob->reg.ret == 0) break;
        ob->unreg_called = true;
        ob->unreg.inv = sim::stamp();
        ob->unreg_ok = w.tr->unobserve(ob->oid);
        ob->unreg.ret = sim::stamp();
        break;
      }
      case SETDATA:
      {
        uint64_t s = pick_slot(o.r);
        if (!s) break;
        UData* u;
        {
          std::lock_guard<std::mutex> lk(w.mx);
          if (w.dataSet.count(s)) break; // one user-data object per session (a second set would replace the first without cleanup)
          w.dataSet.insert(s);
          w.udata.emplace_back(new UData());
          u = w.udata.back().get();
          u->idx = (int)w.udata.size() - 1;
          u->sid = s;
        }
        u->set.inv = sim::stamp();
        w.tr->setSessionData(s, u, [](void* p) { UData* x = (UData*)p; record(E_CLEANUP, x->sid, x->idx, false); });
        u->set.ret = sim::stamp();
        break;
      }
      case STATS: { auto st = w.tr->getStats(); if (st.sessionsCurrent > 1000000) sim::fail("c02-gauge-underflow", "sessionsCurrent wrapped around: %zu", (size_t)st.sessionsCurrent); break; }
      default: break;
      }
      if (o.gap_us) sim::sleep_ns((uint64_t)o.gap_us * 1000ull);
    }
  };
  std::vector<std::thread> actors;
  for (int a = 0; a < nact; a++) actors.emplace_back(run_ops, a);
  std::thread stopper;
  auto do_stop = [&]
  {
    w.stop_inv = sim::stamp();
    w.tr->stop();
    w.stop_ret = sim::stamp();
    w.running.store(false);
  };
  if (stopMode >= 1)
    stopper = std::thread([&]
    {
      sim::name_thread("stopper");
      sim::sleep_ns(stopDelay);
      do_stop();
    });
  for (auto& t : actors) t.join();
  if (stopper.joinable()) stopper.join();
  if (stopMode == 0)
  {
    // let timers, GC and peers play out for a while, then stop in an orderly way
    sim::Config q = cfg;
    q.stall_ppm = 0;
    q.create_stall_permille = 0;
    sim::reconfigure(q);
    sim::sleep_ns(2500000000ull);
    do_stop();
  }
  size_t gaugeAfterStop = w.tr->getStats().sessionsCurrent;
  size_t logAtStop;
  {
    std::lock_guard<std::mutex> lk(w.mx);
    logAtStop = w.log.size();
  }
  if (stopMode == 2)
  {
    // second epoch on the same transport object: identifiers must stay fresh
    { std::lock_guard<std::mutex> lk(w.mx); w.epoch = 1; }
    startEpoch();
    auto r = w.tr->connect("10.0.0.2", w.udp ? 6000 : 6000, TlsMode::None);
    if (r.isOk()) record(E_RET_CONNECT, r.value(), 0, false);
    sim::sleep_ns(300000000ull);
    if (r.isOk()) w.tr->close(r.value());
    sim::sleep_ns(100000000ull);
    w.tr->stop();
    w.running.store(false);
  }
  w.peersStop.store(true);
  for (auto& t : inbound) t.join();
  target.join();
  if (tfd >= 0) ::close(tfd);
  if (rfd >= 0) ::close(rfd);
  if (ufd >= 0) ::close(ufd);
  size_t gaugeEnd = w.tr->getStats().sessionsCurrent;

  // ---- oracles over the log
  struct S { bool seen = false; uint64_t ret_connect = 0; int announces = 0; uint64_t first_announce = 0; int closes = 0; uint64_t close_st = 0, cleanup_st = 0; int cleanups = 0;
             std::vector<std::pair<uint64_t, int>> obsFires; uint64_t last_ev = 0; bool isConnect = false; bool isAccept = false; int epoch = 0; uint64_t data_before_announce = 0; };
  std::map<uint64_t, S> ss;
  {
    std::set<uint64_t> announcedOpen; // announced and close not yet started
    for (size_t i = 0; i < w.log.size(); i++)
    {
      const Ev& e = w.log[i];
      S& s = ss[e.sid];
      s.seen = true;
      s.epoch = std::max(s.epoch, e.epoch);
      if (s.closes > 0 && e.type != E_OBS && e.type != E_CLEANUP && e.type != E_RET_CONNECT)
        sim::fail("c02-event-after-close", "session %llu: %s event (stamp %llu) after its close notification (stamp %llu)", (unsigned long long)e.sid,
                  e.type == E_DATA ? "data" : e.type == E_CLOSE ? "second close" : e.type == E_ACCEPT ? "accept" : "connect", (unsigned long long)e.st, (unsigned long long)s.close_st);
      switch (e.type)
      {
      case E_RET_CONNECT:
        if (s.ret_connect) sim::fail("c02-id-reused", "identifier %llu returned by two connect() calls", (unsigned long long)e.sid);
        if (s.isAccept) sim::fail("c02-id-reused", "identifier %llu returned by connect() had already been announced as an accepted session", (unsigned long long)e.sid);
        s.ret_connect = e.st;
        s.isConnect = true;
        break;
      case E_ACCEPT:
        if (s.isConnect) sim::fail("c02-id-reused", "accepted session got identifier %llu which connect() had handed out", (unsigned long long)e.sid);
        if (s.announces) sim::fail("c02-double-announce", "identifier %llu announced twice", (unsigned long long)e.sid);
        s.isAccept = true;
        s.announces++;
        s.first_announce = e.st;
        announcedOpen.insert(e.sid);
        break;
      case E_CONNECT:
        if (s.isAccept) sim::fail("c02-id-reused", "connect callback for identifier %llu of an accepted session", (unsigned long long)e.sid);
        if (s.announces) sim::fail("c02-double-announce", "identifier %llu announced twice", (unsigned long long)e.sid);
        s.announces++;
        s.first_announce = e.st;
        announcedOpen.insert(e.sid);
        break;
      case E_DATA:
        if (!s.announces) sim::fail("c02-data-before-announce", "data event for session %llu before its accept/connect callback", (unsigned long long)e.sid);
        break;
      case E_CLOSE:
        s.closes++;
        s.close_st = e.st;
        announcedOpen.erase(e.sid);
        break;
      case E_OBS:
        if (!s.closes) sim::fail("c02-observer-before-global", "observer of session %llu ran before the global close callback", (unsigned long long)e.sid);
        if (s.cleanups) sim::fail("c02-observer-after-cleanup", "observer of session %llu ran after the user-data cleanup", (unsigned long long)e.sid);
        s.obsFires.push_back({e.st, e.aux});
        break;
      case E_CLEANUP:
        if (!s.closes) sim::fail("c02-cleanup-before-close", "user-data cleanup of session %llu ran before the global close callback", (unsigned long long)e.sid);
        s.cleanups++;
        s.cleanup_st = e.st;
        if (s.cleanups > 1) sim::fail("c02-cleanup-twice", "user-data cleanup of session %llu ran twice", (unsigned long long)e.sid);
        break;
      }
      // gauge never under-counts (sampled inside I/O-thread callbacks only)
      if (e.gauge != (size_t)-1)
      {
        if (e.gauge > 1000000) sim::fail("c02-gauge-underflow", "sessionsCurrent wrapped around: %zu", e.gauge);
        if (e.gauge < announcedOpen.size())
          sim::fail("c02-gauge-undercount", "sessionsCurrent=%zu inside a callback while %zu announced sessions had not begun closing", e.gauge, announcedOpen.size());
      }
    }
  }
  // exactly one close for every identifier the application saw, once the transport has been stopped in an orderly way
  for (auto& kv : ss)
  {
    S& s = kv.second;
    if (s.closes == 0)
    {
      const char* how = s.isConnect ? (s.announces ? "returned by connect() and announced" : "returned by connect()") : "announced by accept";
      // a connect() that overlapped stop() is still an identifier the application holds
      sim::fail("c02-no-close", "identifier %llu (%s%s) never received a close notification although the transport was stopped in an orderly way",
                (unsigned long long)kv.first, how, (s.isConnect && w.stop_inv && s.ret_connect > w.stop_inv) ? ", connect() returned while stop() was in progress" : "");
    }
  }
  // observers and cleanup
  for (auto& op : w.obs)
  {
    Obs& o = *op;
    if (o.reg.ret == 0) continue;
    S& s = ss[o.sid];
    int fires = 0;
    uint64_t fireSt = 0;
    for (auto& f : s.obsFires) if (f.second == o.idx) { fires++; fireSt = f.first; }
    if (fires > 1) sim::fail("c02-observer-twice", "observer %d of session %llu ran %d times", o.idx, (unsigned long long)o.sid, fires);
    bool regBefore = s.close_st && o.reg.ret < s.close_st;
    bool unregBefore = o.unreg_called && o.unreg_ok && s.close_st && o.unreg.ret < s.close_st;
    bool neverUnreg = !o.unreg_called || !o.unreg_ok || (s.cleanup_st ? o.unreg.inv > s.cleanup_st : false);
    if (unregBefore && fires) sim::fail("c02-unobserved-ran", "observer %d of session %llu ran although unobserve() had returned true before the close", o.idx, (unsigned long long)o.sid);
    if (regBefore && !o.unreg_called && fires != 1 && s.closes)
      sim::fail("c02-observer-missed", "observer %d registered on session %llu before its close never ran", o.idx, (unsigned long long)o.sid);
    (void)neverUnreg;
    (void)fireSt;
  }
  for (auto& kv : ss)
  {
    // registration order: observers whose registrations are ordered in real time fire in that order
    auto& f = kv.second.obsFires;
    for (size_t i = 0; i < f.size(); i++)
      for (size_t j = i + 1; j < f.size(); j++)
      {
        Obs& a = *w.obs[f[i].second];
        Obs& b = *w.obs[f[j].second];
        if (b.reg.ret < a.reg.inv) sim::fail("c02-observer-order", "session %llu: observer %d ran before observer %d which had been registered earlier", (unsigned long long)kv.first, a.idx, b.idx);
      }
  }
  for (auto& up : w.udata)
  {
    UData& u = *up;
    S& s = ss[u.sid];
    if (s.close_st && u.set.ret < s.close_st && s.cleanups != 1)
      sim::fail("c02-cleanup-missed", "user data set on session %llu before its close was never cleaned up", (unsigned long long)u.sid);
  }
  if (gaugeAfterStop != 0) sim::fail("c02-gauge-nonzero", "sessionsCurrent=%zu after stop() although every session has closed", gaugeAfterStop);
  if (gaugeEnd != 0) sim::fail("c02-gauge-nonzero", "sessionsCurrent=%zu at the end", gaugeEnd);
  (void)logAtStop;
  size_t nclosed = 0, nconn = 0, nacc = 0;
  std::map<int, int> codes;
  for (auto& e : w.log) { if (e.type == E_CLOSE) { nclosed++; codes[e.aux]++; } if (e.type == E_RET_CONNECT) nconn++; if (e.type == E_ACCEPT) nacc++; }
  sim::count("c02.sessions_closed", nclosed);
  sim::count("c02.connect_ids", nconn);
  sim::count("c02.accepted", nacc);
  sim::count("c02.observers", w.obs.size());
  for (auto& c : codes) sim::count(("c02.close_code_" + std::to_string(c.first)).c_str(), (uint64_t)c.second);
  sim::state_mix(nclosed * 131 + nconn * 17 + nacc * 7 + (uint64_t)stopMode);
  w.tr.reset();
  sim::finish_ok();
}
