// Raw scripted peers on the simulated network: plain POSIX calls on blocking simulated sockets.
#pragma once
#include "common.h"
#include <arpa/inet.h>
#include <cerrno>
#include <netinet/in.h>
#include <string>
#include <sys/socket.h>
#include <sys/time.h>
#include <unistd.h>

namespace peer
{
inline sockaddr_in addr(const char* ip, int port)
{
  sockaddr_in a{};
  a.sin_family = AF_INET;
  a.sin_port = htons((uint16_t)port);
  inet_pton(AF_INET, ip, &a.sin_addr);
  return a;
}
inline int listen_on(const char* ip, int port, int backlog = 64)
{
  int fd = ::socket(AF_INET, SOCK_STREAM, 0);
  sockaddr_in a = addr(ip, port);
  if (::bind(fd, (sockaddr*)&a, sizeof a) != 0) { ::close(fd); return -1; }
  if (::listen(fd, backlog) != 0) { ::close(fd); return -1; }
  return fd;
}
inline void set_rcvtimeo(int fd, uint64_t ns)
{
  timeval tv;
  tv.tv_sec = (time_t)(ns / 1000000000ull);
  tv.tv_usec = (suseconds_t)((ns % 1000000000ull) / 1000);
  ::setsockopt(fd, SOL_SOCKET, SO_RCVTIMEO, &tv, sizeof tv);
}
inline void set_sndtimeo(int fd, uint64_t ns)
{
  timeval tv;
  tv.tv_sec = (time_t)(ns / 1000000000ull);
  tv.tv_usec = (suseconds_t)((ns % 1000000000ull) / 1000);
  ::setsockopt(fd, SOL_SOCKET, SO_SNDTIMEO, &tv, sizeof tv);
}
// blocking accept with a simulated-time limit; -1 on timeout
inline int accept_one(int lfd, uint64_t timeout_ns)
{
  set_rcvtimeo(lfd, timeout_ns);
  return ::accept(lfd, nullptr, nullptr);
}
inline int connect_to(const char* ip, int port, uint64_t timeout_ns = 0)
{
  int fd = ::socket(AF_INET, SOCK_STREAM, 0);
  if (timeout_ns) set_sndtimeo(fd, timeout_ns);
  sockaddr_in a = addr(ip, port);
  if (::connect(fd, (sockaddr*)&a, sizeof a) != 0) { ::close(fd); return -1; }
  if (timeout_ns) set_sndtimeo(fd, 0);
  return fd;
}
inline bool write_all(int fd, const std::string& s)
{
  size_t off = 0;
  while (off < s.size())
  {
    ssize_t n = ::send(fd, s.data() + off, s.size() - off, MSG_NOSIGNAL);
    if (n <= 0) return false;
    off += (size_t)n;
  }
  return true;
}
// read up to `want` more bytes (or until EOF / error / idle timeout); returns 1 ok, 0 EOF, -1 error, -2 timeout
inline int read_some(int fd, std::string& out, size_t maxChunk, uint64_t idle_timeout_ns)
{
  std::string buf(maxChunk, '\0');
  set_rcvtimeo(fd, idle_timeout_ns);
  ssize_t n = ::recv(fd, &buf[0], maxChunk, 0);
  if (n > 0) { out.append(buf.data(), (size_t)n); return 1; }
  if (n == 0) return 0;
  return (errno == EAGAIN || errno == EWOULDBLOCK) ? -2 : -1;
}
inline void rst_close(int fd)
{
  struct linger lg = {1, 0};
  ::setsockopt(fd, SOL_SOCKET, SO_LINGER, &lg, sizeof lg);
  ::close(fd);
}
} // namespace peer
