// C05: stopping / destroying a Transport while every public operation is in flight (modes "tcp", "udp").
// Oracles: every call returns (deadlock detector) within its own timeout + stall + slack with a documented result; calls issued
// after stop() returned fail cleanly; no callback after stop() returned to a non-callback thread (until a later start());
// stop() inside a callback throws instead of deadlocking; sole-owner release inside a callback is deferred; ASan/UBSan silent
// (asan flavour) and no data race in the anchor files (tsan flavour).
#include "common.h"
#include "netpeer.h"
#include "iora/core/logger.hpp"
#include "iora/network/transport.hpp"
#include "iora/network/transport_impl.hpp"

#include <atomic>
#include <mutex>
#include <thread>
#include <vector>

using namespace iora::network;

namespace
{
enum OpK { CONNECT, CONNECTSYNC, RECVSYNC, SETMODE, SEND, SENDSYNC, CLOSE, ADDLISTENER, STATS, OBSERVE, SLEEP, ADDR, NOPK };
const char* opn[] = {"connect", "connectSync", "receiveSync", "setReadMode", "send", "sendSync", "close", "addListener", "getStats", "observe", "sleep", "addresses"};
struct Op { int k; uint64_t r; uint32_t timeout_ms; uint32_t gap_us; };
struct CallRec { int k; hx::Span sp; uint64_t t_inv, t_ret, st_inv, st_ret; uint32_t timeout_ms; bool ok; int code; bool threw; };
struct World
{
  bool udp = false;
  std::shared_ptr<Transport> tr;
  Transport* raw = nullptr;
  std::mutex mx;
  std::vector<uint64_t> sids;
  std::vector<std::vector<CallRec>> calls;
  std::vector<std::pair<uint64_t, int>> cbEvents; // (stamp, kind)
  std::atomic<bool> quit{false};
  std::atomic<bool> peersStop{false};
  std::atomic<int> parked{0};
  uint64_t stop_inv = 0, stop_ret = 0, restart_inv = 0;
  bool stopThrewInCallback = false, stopInCallbackTried = false;
  std::atomic<bool> selfDestructArmed{false};
  std::shared_ptr<Transport> soleOwner; // scenario 3: released inside a callback
  std::atomic<bool> selfDestructDone{false};
  int scenario = 0;
  uint16_t nextPort = 5100;
};
World* W;
thread_local bool t_isHarnessThread = false; // callbacks can also run on application threads (setReadMode flush)

uint64_t pick_sid(uint64_t r)
{
  std::lock_guard<std::mutex> g(W->mx);
  if (W->sids.empty()) return 1 + r % 3;
  return W->sids[r % W->sids.size()];
}
void cb_event(int kind)
{
  World& w = *W;
  uint64_t st = sim::stamp();
  std::lock_guard<std::mutex> g(w.mx);
  // a Sync->Async flush runs the data callback synchronously on the application thread that called setReadMode: that is the
  // caller's own doing, not the transport calling back after stop
  if (t_isHarnessThread) return;
  w.cbEvents.push_back({st, kind});
}
} // namespace

extern "C" HarnessInfo harness_info() { return {"c05_teardown", "C05", 30}; }

extern "C" void harness_run()
{
  iora::core::Logger::setLevel(iora::core::Logger::Level::Fatal);
  World w;
  W = &w;
  w.udp = std::string(sim::mode()) == "udp";
  bool th = hx::thorough();
  // ---- plan
  sim::net::NetConfig nc;
  nc.latency_ns = sim::draw(2) ? 30000 : 800000;
  nc.jitter_ns = nc.latency_ns / 2;
  nc.short_read_permille = sim::draw(3) == 2 ? 300 : 0;
  nc.eintr_ppm = sim::draw(3) == 2 ? 10000 : 0;
  nc.sndbuf = sim::draw(2) ? 65536 : 256;
  TransportConfig tc;
  tc.useEdgeTriggered = sim::draw(2) == 0;
  tc.batching.enabled = sim::draw(4) == 3;
  tc.gcInterval = std::chrono::seconds(1);
  tc.maxWriteQueue = sim::draw(2) ? 1024 : 4;
  tc.protocol = w.udp ? Protocol::UDP : Protocol::TCP;
  // 0 stop() from a plain thread; 1 stop() attempted inside a callback, then a plain stop; 2 last owner dropped by a plain thread while callers
  // are parked; 3 sole owner released inside a callback (deferred self-destruction); 4 start/stop cycles
  w.scenario = (int)sim::draw(5);
  int nthr = w.scenario == 3 ? 0 : 2 + (int)sim::draw(th ? 5 : 3);
  std::vector<std::vector<Op>> plan(nthr);
  for (int t = 0; t < nthr; t++)
  {
    int n = 3 + (int)sim::draw(th ? 24 : 12);
    for (int i = 0; i < n; i++)
    {
      Op o{};
      static const int mix[] = {CONNECT, CONNECT, CONNECTSYNC, CONNECTSYNC, RECVSYNC, RECVSYNC, SETMODE, SETMODE, SEND, SEND, SENDSYNC, CLOSE, ADDLISTENER, STATS, OBSERVE, SLEEP, ADDR};
      o.k = mix[sim::draw(17)];
      o.r = sim::draw(1u << 20);
      static const uint32_t tos[] = {1, 10, 100, 1500};
      o.timeout_ms = tos[sim::draw(4)];
      // UDP: a session that is not being read keeps its level-triggered EPOLLIN armed and the engine's I/O thread polls without
      // blocking while data is pending (a CPU-usage matter, not this property): simulated time then advances one step at a time,
      // so the long timeouts are kept short enough for the plan to finish within the step budget
      if (w.udp && o.timeout_ms > 300) o.timeout_ms = 300;
      static const uint32_t gaps[] = {0, 0, 30, 800, 8000};
      o.gap_us = gaps[sim::draw(5)];
      if (o.k == SLEEP) o.gap_us = 200 + (uint32_t)sim::draw(40000);
      plan[t].push_back(o);
    }
    // scenario 2 needs callers that are parked when the owner lets go: end each plan with a long blocking call
    if (w.scenario == 2) { plan[t].push_back({sim::draw(2) ? RECVSYNC : CONNECTSYNC, sim::draw(1u << 20), 4000, 0}); }
  }
  uint64_t termDelay = sim::draw(400000) * 1000ull;
  std::vector<uint32_t> udpGapsUs(w.udp ? 3 + sim::draw(8) : 0);
  std::vector<char> udpFresh(udpGapsUs.size());
  for (size_t i = 0; i < udpGapsUs.size(); i++) { udpGapsUs[i] = 1000 + (uint32_t)sim::draw(60000); udpFresh[i] = sim::draw(4) == 3; }
  int cycles = w.scenario == 4 ? 2 + (int)sim::draw(2) : 1;
  sim::notef("%s scenario=%d threads=%d ET=%d batch=%d termDelay=%llums cycles=%d", w.udp ? "UDP" : "TCP", w.scenario, nthr, tc.useEdgeTriggered, tc.batching.enabled,
             (unsigned long long)termDelay / 1000000, cycles);
  for (int t = 0; t < nthr; t++)
  {
    std::string l = "thread " + std::to_string(t) + ":";
    for (auto& o : plan[t]) l += std::string(" ") + opn[o.k] + (o.k == CONNECTSYNC || o.k == RECVSYNC ? "(" + std::to_string(o.timeout_ms) + "ms)" : "");
    sim::notef("%s", l.c_str());
  }
  t_isHarnessThread = true;
  hx::SchedOpts so;
  so.stall_max_ns = 6000000;
  sim::Config cfg = hx::draw_sched(so);
  cfg.max_steps = 5000000;
  sim::begin(cfg);
  sim::net::configure(nc);
  sim::net::set_blackhole("10.0.9.9", 6000, true);

  // ---- peers: echo-ish target on 10.0.0.2:6000, a pair of inbound clients
  int tfd = -1, ufd = -1;
  if (!w.udp) tfd = peer::listen_on("10.0.0.2", 6000);
  else
  {
    ufd = ::socket(AF_INET, SOCK_DGRAM, 0);
    sockaddr_in a = peer::addr("10.0.0.2", 6000);
    ::bind(ufd, (sockaddr*)&a, sizeof a);
  }
  std::thread target([&]
  {
    sim::name_thread("target");
    std::vector<int> held;
    while (!w.peersStop.load())
    {
      if (w.udp)
      {
        char b[2048];
        sockaddr_in from{};
        socklen_t fl = sizeof from;
        peer::set_rcvtimeo(ufd, 20000000);
        ssize_t k = ::recvfrom(ufd, b, sizeof b, 0, (sockaddr*)&from, &fl);
        if (k > 0) ::sendto(ufd, b, (size_t)k, 0, (sockaddr*)&from, fl);
        continue;
      }
      int c = peer::accept_one(tfd, 10000000);
      if (c >= 0) { peer::write_all(c, hx::keyed_bytes(5, 300)); held.push_back(c); }
      // trickle data on held connections so receivers have something to do
      for (size_t i = 0; i < held.size(); i++) { peer::set_sndtimeo(held[i], 1000000); ::send(held[i], "x", 1, MSG_NOSIGNAL); }
    }
    for (int c : held) ::close(c);
  });
  std::thread inbound([&]
  {
    sim::name_thread("inbound");
    if (w.udp)
    {
      // one long-lived peer address (its datagrams keep arriving across stop/start cycles) and some one-shot ones
      int pfd = ::socket(AF_INET, SOCK_DGRAM, 0);
      sockaddr_in me = peer::addr("10.0.1.1", 7000);
      ::bind(pfd, (sockaddr*)&me, sizeof me);
      sockaddr_in to = peer::addr("127.0.0.1", 5000);
      for (size_t i = 0; i < udpGapsUs.size() && !w.peersStop.load(); i++)
      {
        sim::sleep_ns((uint64_t)udpGapsUs[i] * 1000ull);
        if (udpFresh[i])
        {
          int fd = ::socket(AF_INET, SOCK_DGRAM, 0);
          ::sendto(fd, "hello", 5, 0, (sockaddr*)&to, sizeof to);
          ::close(fd);
        }
        else ::sendto(pfd, "hello", 5, 0, (sockaddr*)&to, sizeof to);
      }
      ::close(pfd);
      return;
    }
    for (int i = 0; i < 3 && !w.peersStop.load(); i++)
    {
      sim::sleep_ns(20000000 + 30000000ull * i);
      int fd = peer::connect_to("127.0.0.1", 5000, 200000000ull);
      if (fd < 0) continue;
      peer::write_all(fd, hx::keyed_bytes(9, 400));
      std::string tmp;
      for (int k = 0; k < 200 && !w.peersStop.load(); k++) { int r = peer::read_some(fd, tmp, 4096, 20000000); if (r == 0 || r == -1) break; }
      ::close(fd);
    }
  });

  // ---- transport
  w.tr = w.udp ? Transport::udp(tc) : Transport::tcp(tc);
  w.raw = w.tr.get();
  auto note_sid = [&](SessionId sid) { std::lock_guard<std::mutex> g(w.mx); w.sids.push_back(sid); };
  auto maybe_in_callback = [&]
  {
    if (t_isHarnessThread) return; // only callbacks running on the transport's own I/O thread
    if (w.scenario == 1 && !w.stopInCallbackTried)
    {
      w.stopInCallbackTried = true;
      try { w.raw->stop(); } catch (const std::logic_error&) { w.stopThrewInCallback = true; }
      // the other blocking operations are refused on the I/O thread as well
      try { size_t l = 1; char b; w.raw->receiveSync(1, &b, l, std::chrono::milliseconds(1)); sim::fail("c05-io-thread-guard", "receiveSync on the I/O thread did not throw"); } catch (const std::logic_error&) {}
      try { w.raw->setReadMode(1, ReadMode::Sync); sim::fail("c05-io-thread-guard", "setReadMode on the I/O thread did not throw"); } catch (const std::logic_error&) {}
    }
    if (w.scenario == 3 && w.selfDestructArmed.load() && w.soleOwner)
    {
      // the sole owner lets go inside one of the transport's own callbacks
      w.soleOwner.reset();
      w.selfDestructDone.store(true);
    }
  };
  w.tr->onAccept([&](SessionId sid, const TransportAddress&) { cb_event(0); note_sid(sid); maybe_in_callback(); });
  w.tr->onConnect([&](SessionId sid, const TransportAddress&) { cb_event(1); note_sid(sid); maybe_in_callback(); });
  w.tr->onData([&](SessionId, iora::core::BufferView, std::chrono::steady_clock::time_point) { cb_event(2); maybe_in_callback(); });
  w.tr->onClose([&](SessionId, const TransportErrorInfo&) { cb_event(3); maybe_in_callback(); });
  auto start_epoch = [&]
  {
    if (w.raw->start().isErr()) sim::fail("harness", "start failed");
    auto lr = w.raw->addListener("127.0.0.1", 5000, TlsMode::None);
    if (lr.isErr()) sim::fail("harness", "addListener failed: %s", lr.error().message.c_str());
  };
  start_epoch();

  w.calls.resize(nthr);
  auto run_thread = [&](int t)
  {
    char nm[16];
    snprintf(nm, sizeof nm, "app%d", t);
    sim::name_thread(nm);
    t_isHarnessThread = true;
    Transport* tr = w.raw; // non-owning users: the owner may let go while they are parked inside a call (scenario 2)
    for (size_t i = 0; i < plan[t].size(); i++)
    {
      Op o = plan[t][i];
      bool last = w.scenario == 2 && i + 1 == plan[t].size();
      if (w.quit.load() && !last) break;
      if (w.scenario == 2 && w.quit.load()) break;
      CallRec c{};
      c.k = o.k;
      c.timeout_ms = o.timeout_ms;
      c.st_inv = sim::stalled_ns();
      c.t_inv = sim::now();
      c.sp.inv = sim::stamp();
      c.ok = true;
      if (last) w.parked.fetch_add(1);
      try
      {
        switch (o.k)
        {
        case CONNECT:
        {
          auto r = tr->connect(o.r % 5 == 0 ? "10.0.9.9" : "10.0.0.2", 6000, TlsMode::None);
          c.ok = r.isOk();
          if (!c.ok) c.code = (int)r.error().code; else note_sid(r.value());
          break;
        }
        case CONNECTSYNC:
        {
          auto r = tr->connectSync(o.r % 4 == 0 ? "10.0.9.9" : "10.0.0.2", 6000, TlsMode::None, std::chrono::milliseconds(o.timeout_ms));
          c.ok = r.isOk();
          if (!c.ok) c.code = (int)r.error().code; else note_sid(r.value());
          break;
        }
        case RECVSYNC:
        {
          char b[256];
          size_t l = sizeof b;
          auto r = tr->receiveSync(pick_sid(o.r), b, l, std::chrono::milliseconds(o.timeout_ms));
          c.ok = r.isOk();
          if (!c.ok) c.code = (int)r.error().code;
          break;
        }
        case SETMODE: c.ok = tr->setReadMode(pick_sid(o.r), (o.r >> 8) % 3 == 0 ? ReadMode::Async : ((o.r >> 8) % 3 == 1 ? ReadMode::Sync : ReadMode::Disabled)); break;
        case SEND: { std::string d = hx::keyed_bytes(o.r, 1 + o.r % 1500); c.ok = tr->send(pick_sid(o.r), d.data(), d.size()); break; }
        case SENDSYNC:
        {
          std::string d = hx::keyed_bytes(o.r, 1 + o.r % 1500);
          auto r = tr->sendSync(pick_sid(o.r), iora::core::BufferView{(const std::uint8_t*)d.data(), d.size()}, std::chrono::milliseconds(o.timeout_ms));
          c.ok = r.isOk();
          if (!c.ok) c.code = (int)r.error().code;
          break;
        }
        case CLOSE: c.ok = tr->close(pick_sid(o.r)); break;
        case ADDLISTENER:
        {
          uint16_t port;
          { std::lock_guard<std::mutex> g(w.mx); port = w.nextPort++; }
          auto r = tr->addListener("127.0.0.1", port, TlsMode::None);
          c.ok = r.isOk();
          if (!c.ok) c.code = (int)r.error().code;
          break;
        }
        case STATS: { auto s = tr->getStats(); (void)s; (void)tr->isRunning(); (void)tr->lastError(); break; }
        case OBSERVE: { auto id = tr->observe(pick_sid(o.r), [](SessionId, const TransportErrorInfo&) { cb_event(4); }); if (o.r & 1) tr->unobserve(id); break; }
        case ADDR: { (void)tr->getLocalAddress(pick_sid(o.r)); (void)tr->getRemoteAddress(pick_sid(o.r)); ReadMode m; (void)tr->getReadMode(pick_sid(o.r), m); break; }
        default: break;
        }
      }
      catch (const std::logic_error&) { c.threw = true; }
      c.sp.ret = sim::stamp();
      c.t_ret = sim::now();
      c.st_ret = sim::stalled_ns();
      w.calls[t].push_back(c);
      if (last) return; // after the owner let go the object is gone: no further member call
      if (o.gap_us) sim::sleep_ns((uint64_t)o.gap_us * 1000ull);
    }
  };
  std::vector<std::thread> apps;
  for (int t = 0; t < nthr; t++) apps.emplace_back(run_thread, t);

  // ---- the terminating action
  if (w.scenario == 0 || w.scenario == 1)
  {
    sim::sleep_ns(termDelay);
    w.stop_inv = sim::stamp();
    w.raw->stop();
    w.stop_ret = sim::stamp();
    for (auto& t : apps) t.join();
  }
  else if (w.scenario == 4)
  {
    for (int cy = 0; cy < cycles; cy++)
    {
      sim::sleep_ns(termDelay / cycles + 1000000);
      uint64_t inv = sim::stamp();
      w.raw->stop();
      uint64_t ret = sim::stamp();
      if (cy + 1 < cycles)
      {
        // callbacks between this stop and the restart are forbidden; record the window
        w.stop_inv = inv;
        w.stop_ret = ret;
        sim::sleep_ns(2000000);
        {
          std::lock_guard<std::mutex> g(w.mx);
          for (auto& e : w.cbEvents) if (e.first > ret) sim::fail("c05-callback-after-stop", "callback (kind %d) ran after stop() had returned and before the next start()", e.second);
        }
        w.restart_inv = sim::stamp();
        start_epoch();
      }
      else { w.stop_inv = inv; w.stop_ret = ret; }
    }
    for (auto& t : apps) t.join();
  }
  else if (w.scenario == 2)
  {
    // wait until every thread has reached its final, long blocking call, give it time to park, then the only owner lets go
    sim::Config q = cfg;
    q.stall_ppm = 0;
    q.create_stall_permille = 0;
    for (int i = 0; i < 200000 && w.parked.load() < nthr; i++) sim::sleep_ns(500000);
    sim::reconfigure(q);
    sim::sleep_ns(30000000);
    sim::reconfigure(cfg);
    w.quit.store(true);
    w.stop_inv = sim::stamp();
    w.tr.reset(); // ~Transport on a plain thread: teardown handshake must release the parked callers first
    w.stop_ret = sim::stamp();
    for (auto& t : apps) t.join();
  }
  else // scenario 3
  {
    // single-threaded sole owner: hand the only reference to the holder that a callback will release
    sim::sleep_ns(termDelay / 4);
    auto cr = w.raw->connect("10.0.0.2", 6000, TlsMode::None); // provokes connect/data callbacks
    (void)cr;
    w.soleOwner = std::move(w.tr);
    w.selfDestructArmed.store(true);
    for (int i = 0; i < 20000 && !w.selfDestructDone.load(); i++) sim::sleep_ns(1000000);
    if (!w.selfDestructDone.load()) { w.selfDestructArmed.store(false); if (w.soleOwner) { w.soleOwner->stop(); w.soleOwner.reset(); } }
    sim::sleep_ns(50000000); // the detached I/O thread finishes its loop and deletes the implementation
  }
  // ---- after termination (scenarios with a live object): operations fail cleanly
  if (w.tr)
  {
    auto r1 = w.raw->connect("10.0.0.2", 6000, TlsMode::None);
    if (r1.isOk()) sim::fail("c05-accepted-after-stop", "connect() accepted after stop() had returned");
    if (w.raw->send(1, "x", 1)) sim::fail("c05-accepted-after-stop", "send() accepted after stop() had returned");
    if (w.raw->close(1)) sim::fail("c05-accepted-after-stop", "close() accepted after stop() had returned");
    uint64_t t0 = sim::now();
    auto r2 = w.raw->connectSync("10.0.0.2", 6000, TlsMode::None, std::chrono::milliseconds(50));
    if (r2.isOk()) sim::fail("c05-accepted-after-stop", "connectSync() succeeded after stop() had returned");
    if (sim::now() - t0 > 200000000ull) sim::fail("c05-late", "connectSync after stop took %.1f ms with a 50 ms timeout", (sim::now() - t0) / 1e6);
    auto r3 = w.raw->addListener("127.0.0.1", 5999, TlsMode::None);
    (void)r3; // both outcomes are documented (queued for the next start, or ShuttingDown)
    if (w.raw->isRunning()) sim::fail("c05-still-running", "isRunning() is true after stop() returned");
    w.raw->stop(); // idempotent
  }
  sim::sleep_ns(20000000);
  w.peersStop.store(true);
  target.join();
  inbound.join();
  if (tfd >= 0) ::close(tfd);
  if (ufd >= 0) ::close(ufd);

  // ---- oracles
  // stop() inside a callback either throws (transport running) or is a no-op (the callback belongs to the shutdown drain of a stop that is
  // already in progress); what matters is that it returned - a deadlock would have been reported by the simulator
  sim::count("c05.stop_in_callback_threw", w.stopThrewInCallback ? 1 : 0);
  sim::count("c05.stop_in_callback_tried", w.stopInCallbackTried ? 1 : 0);
  {
    std::lock_guard<std::mutex> g(w.mx);
    if (w.stop_ret && w.scenario != 3)
      for (auto& e : w.cbEvents)
        if (e.first > w.stop_ret && !(w.restart_inv && e.first > w.restart_inv && w.scenario == 4 && false))
          sim::fail("c05-callback-after-stop", "callback (kind %d, stamp %llu) ran after stop()/destruction had returned to a plain thread (stamp %llu)", e.second,
                    (unsigned long long)e.first, (unsigned long long)w.stop_ret);
  }
  static const int okCodes[] = {(int)TransportError::Connect, (int)TransportError::Resolve, (int)TransportError::Timeout, (int)TransportError::Cancelled, (int)TransportError::ShuttingDown,
                                (int)TransportError::PeerClosed, (int)TransportError::Socket, (int)TransportError::GCClosed, (int)TransportError::BufferOverflow, (int)TransportError::Bind,
                                (int)TransportError::Unknown, (int)TransportError::Config, (int)TransportError::WriteBackpressure};
  size_t ncalls = 0, shutdowns = 0;
  for (auto& v : w.calls)
    for (auto& c : v)
    {
      ncalls++;
      if (c.threw) sim::fail("c05-threw", "%s threw logic_error on an application thread", opn[c.k]);
      if (!c.ok && c.code)
      {
        bool known = false;
        for (int k : okCodes) if (k == c.code) known = true;
        if (!known) sim::fail("c05-bad-result", "%s failed with undocumented code %d", opn[c.k], c.code);
        if (c.code == (int)TransportError::ShuttingDown) shutdowns++;
      }
      uint64_t own = (c.k == CONNECTSYNC || c.k == RECVSYNC) ? (uint64_t)c.timeout_ms * 1000000ull : 0;
      uint64_t budget = own + (c.st_ret - c.st_inv) + 100000000ull + (c.k == ADDLISTENER ? 100000000ull : 0);
      if (c.t_ret - c.t_inv > budget)
        sim::fail("c05-late", "%s took %.1f ms (own timeout %u ms, injected stall %.1f ms, admissible %.1f ms)", opn[c.k], (c.t_ret - c.t_inv) / 1e6,
                  (c.k == CONNECTSYNC || c.k == RECVSYNC) ? c.timeout_ms : 0, (c.st_ret - c.st_inv) / 1e6, budget / 1e6);
    }
  sim::count("c05.calls", ncalls);
  sim::count("c05.shutting_down_results", shutdowns);
  sim::count("c05.callbacks", w.cbEvents.size());
  sim::count(("c05.scenario_" + std::to_string(w.scenario)).c_str(), 1);
  sim::count("c05.self_destruct_in_callback", w.selfDestructDone.load() ? 1 : 0);
  sim::state_mix(ncalls * 131 + shutdowns * 17 + (uint64_t)w.scenario);
  w.tr.reset();
  sim::finish_ok();
}
