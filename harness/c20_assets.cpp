// C20: iora::web::Assets lookups against a live, concurrently mutated directory tree.
// Every lstat/stat/readlink/open/rename/symlink is a scheduling point, so a link swap can land anywhere between the containment
// check and the open. Oracle: no returned body (raw or gzip variant) ever contains bytes of a file outside the root; with the
// swapper idle, Found => the OS-resolved location is a regular file inside the root and the bytes are that file's.
#include "common.h"
#include "iora/core/logger.hpp"
#include "iora/web/assets.hpp"

#include <atomic>
#include <fcntl.h>
#include <fstream>
#include <sys/stat.h>
#include <thread>
#include <unistd.h>
#include <vector>

using namespace iora::web;

namespace
{
void wr(const std::string& p, const std::string& c)
{
  std::ofstream f(p, std::ios::binary);
  f << c;
}
std::string slurp_real(const std::string& p)
{
  std::ifstream f(p, std::ios::binary);
  return std::string((std::istreambuf_iterator<char>(f)), std::istreambuf_iterator<char>());
}
struct Lookup { int thr; std::string name; bool tmpl; bool found; std::string body, gz; hx::Span sp; };
} // namespace

extern "C" HarnessInfo harness_info() { return {"c20_assets", "C20", 30}; }

extern "C" void harness_run()
{
  iora::core::Logger::setLevel(iora::core::Logger::Level::Fatal);
  bool th = hx::thorough();
  int mode = (int)sim::draw(3); // 0 filesystem (cached), 1 filesystem per-request, 2 embedded registry with external directory
  int nthr = 1 + (int)sim::draw(th ? 3 : 2);
  bool swapping = sim::draw(4) != 0;
  // names: a traversal-aware generator
  static const char* base[] = {"index.html", "sub/a.txt", "sub/deep/b.txt", "link_in", "dirlink_in/a.txt", "link_out", "dirlink_out/secret.txt", "dirlink_out/other.txt", "sub/link_out2",
                               "t.html", "tlink_out", "missing.txt", "sub", "sub/", "", ".", "sub/a.txt.gz", "gzonly.txt"};
  auto mutate = [&](std::string n) -> std::string
  {
    switch (sim::draw(16))
    {
    case 0: return "../" + n;
    case 1: return "/" + n;
    case 2: return "sub/../" + n;
    case 3: return n + "/";
    case 4: return "sub//" + n;
    case 5: return "./" + n;
    case 6: return "..\\" + n;
    case 7: return "%2e%2e/" + n;
    case 8: return n + std::string("\0.png", 5);
    case 9: return std::string(300, 'A') + "/" + n;
    case 10: return "../../outside/secret.txt";
    case 11: return "dirlink_out/../outside/secret.txt";
    case 12: return "sub/deep/../../" + n;
    case 13: return "....//" + n;
    default: return n;
    }
  };
  int nlook = 4 + (int)sim::draw(th ? 40 : 18);
  std::vector<std::vector<std::pair<std::string, bool>>> plan(nthr);
  for (auto& v : plan)
    for (int i = 0; i < nlook; i++)
    {
      std::string n = base[sim::draw(18)];
      if (sim::draw(3) == 0) n = mutate(n);
      v.push_back({n, sim::draw(4) == 0});
    }
  int nswaps = swapping ? 3 + (int)sim::draw(th ? 30 : 14) : 0;
  std::vector<int> swapTarget((size_t)nswaps);
  for (auto& s : swapTarget) s = (int)sim::draw(4);
  sim::notef("mode=%s lookupThreads=%d lookups/thread=%d swaps=%d", mode == 0 ? "filesystem-cached" : mode == 1 ? "filesystem-per-request" : "embedded+external-dir", nthr, nlook, nswaps);
  {
    std::string l = "thread 0 names:";
    for (auto& p : plan[0]) { std::string n = p.first; for (auto& c : n) if (!c) c = '0'; l += " '" + n.substr(0, 40) + "'"; }
    sim::notef("%s", l.c_str());
  }
  hx::SchedOpts so;
  so.allow_stalls = false;
  so.allow_spurious = false;
  sim::Config cfg = hx::draw_sched(so);
  if (cfg.strategy == sim::RR) cfg.strategy = sim::RANDOM;
  cfg.preempt_permille = std::max(cfg.preempt_permille, 100u);
  sim::begin(cfg);

  // ---- the tree
  std::string top = sim::scratch_dir();
  std::string root = top + "/root", st = root + "/static", tp = root + "/templates", out = top + "/outside";
  for (auto& d : {root, st, st + "/sub", st + "/sub/deep", tp, out, root + "/static_evil"}) mkdir(d.c_str(), 0700);
  wr(st + "/index.html", "INSIDE-1 index");
  wr(st + "/sub/a.txt", "INSIDE-2 a");
  wr(st + "/sub/deep/b.txt", "INSIDE-3 b");
  wr(st + "/gzonly.txt", "INSIDE-5 gzonly");
  wr(tp + "/t.html", "INSIDE-4 template");
  wr(out + "/secret.txt", "SECRET-1 outside");
  wr(out + "/other.txt", "SECRET-2 outside");
  wr(root + "/static_evil/x", "SECRET-3 sibling");
  wr(root + "/rootfile.txt", "SECRET-4 above static root");
  if (symlink("sub/a.txt", (st + "/link_in").c_str())) {}
  if (symlink("sub", (st + "/dirlink_in").c_str())) {}
  if (symlink("../../outside/secret.txt", (st + "/link_out").c_str())) {}
  if (symlink("../../outside", (st + "/dirlink_out").c_str())) {}
  if (symlink("../../../outside/other.txt", (st + "/sub/link_out2").c_str())) {}
  if (symlink("../../outside/secret.txt", (tp + "/tlink_out").c_str())) {}
  if (symlink("../../outside/secret.txt", (st + "/gzonly.txt.gz").c_str())) {} // a gzip sibling that points outside
  // spare regular copies used by the swapper to restore
  wr(top + "/spare_index", "INSIDE-1 index");
  wr(top + "/spare_a", "INSIDE-2 a");
  wr(top + "/spare_t", "INSIDE-4 template");
  wr(top + "/spare_b", "INSIDE-3 b");

  // embedded registry with an external directory (mode 2)
  std::vector<std::string> extNames;
  for (auto b : base) extNames.push_back(b);
  for (auto& v : plan) for (auto& p : v) extNames.push_back(p.first);
  std::sort(extNames.begin(), extNames.end());
  extNames.erase(std::unique(extNames.begin(), extNames.end()), extNames.end());
  std::vector<std::string_view> extViews(extNames.begin(), extNames.end());
  EmbeddedAssetRegistry reg;
  reg.externalDir = st;
  reg.externalPaths = extViews.data();
  reg.externalPathsCount = extViews.size();
  Assets assets = mode == 2 ? Assets::fromEmbedded(reg) : Assets::fromDirectory(root, mode == 1);

  sim::fs::set_yield_on_path_ops(true);
  std::vector<std::vector<Lookup>> results(nthr);
  std::atomic<bool> swapperDone{!swapping};
  std::atomic<uint64_t> lastSwapSt{0};
  std::vector<std::thread> thr;
  for (int t = 0; t < nthr; t++)
    thr.emplace_back([&, t]
    {
      sim::name_thread("lookup");
      for (auto& p : plan[t])
      {
        Lookup l;
        l.thr = t;
        l.name = p.first;
        l.tmpl = p.second && mode != 2;
        l.sp.inv = sim::stamp();
        if (l.tmpl)
        {
          auto r = assets.getTemplate(l.name);
          l.found = r.has_value();
          if (r) l.body.assign(r->data(), r->size());
        }
        else
        {
          auto r = assets.getStatic(l.name);
          l.found = r.status == GetStaticResult::Status::Found;
          if (l.found)
          {
            l.body.assign(r.blob.bytes.data(), r.blob.bytes.size());
            if (r.blob.gzipBytes) l.gz.assign(r.blob.gzipBytes->data(), r.blob.gzipBytes->size());
          }
        }
        l.sp.ret = sim::stamp();
        // sound under any interleaving: content from outside the root is never returned
        if (l.body.find("SECRET") != std::string::npos || l.gz.find("SECRET") != std::string::npos)
        {
          std::string n = l.name;
          for (auto& c : n) if (!c) c = '0';
          sim::fail("c20-escape", "%s('%s') returned content from outside its root: \"%s\"%s", l.tmpl ? "getTemplate" : "getStatic", n.c_str(),
                    (l.body.find("SECRET") != std::string::npos ? l.body : l.gz).substr(0, 30).c_str(), swapperDone.load() ? " (no swap in progress)" : " (while the final component was being swapped)");
        }
        results[t].push_back(std::move(l));
      }
    });
  std::thread swapper;
  if (swapping)
    swapper = std::thread([&]
    {
      sim::name_thread("swapper");
      // replaces FINAL path components only: regular file <-> symlink to an outside file
      const std::string targets[] = {st + "/index.html", st + "/sub/a.txt", tp + "/t.html", st + "/sub/deep/b.txt"};
      const std::string spares[] = {top + "/spare_index", top + "/spare_a", top + "/spare_t", top + "/spare_b"};
      const std::string contents[] = {"INSIDE-1 index", "INSIDE-2 a", "INSIDE-4 template", "INSIDE-3 b"};
      for (int i = 0; i < nswaps; i++)
      {
        int k = swapTarget[(size_t)i];
        std::string tmp = top + "/tmp_link";
        ::unlink(tmp.c_str());
        if (symlink((out + "/secret.txt").c_str(), tmp.c_str()) != 0) continue;
        ::rename(tmp.c_str(), targets[k].c_str()); // now a symlink leading outside
        sim::point(0xc20);
        // ... and back to a regular file
        std::string tmpf = top + "/tmp_file";
        wr(tmpf, contents[k]);
        ::rename(tmpf.c_str(), targets[k].c_str());
        lastSwapSt.store(sim::stamp());
        (void)spares;
      }
      swapperDone.store(true);
    });
  for (auto& t : thr) t.join();
  if (swapper.joinable()) swapper.join();
  sim::fs::set_yield_on_path_ops(false);

  // ---- with the swapper idle (lookups invoked after the last swap): exact agreement with the OS view
  size_t found = 0, exact = 0;
  uint64_t quietFrom = swapping ? lastSwapSt.load() : 0;
  for (auto& v : results)
    for (auto& l : v)
    {
      if (l.found) found++;
      if (!l.found) continue; // refusal is always admissible
      if (swapping && !(swapperDone.load() && l.sp.inv > quietFrom)) continue;
      if (mode == 0 && swapping) continue; // cached mode may legitimately serve what it read earlier
      exact++;
      std::string baseDir = l.tmpl ? tp : st;
      std::string full = baseDir + "/" + l.name.substr(0, l.name.find('\0'));
      char rp[4096];
      if (!::realpath(full.c_str(), rp)) sim::fail("c20-found-nonexistent", "Found for '%s' but the OS cannot resolve it", l.name.c_str());
      std::string real = rp;
      char rb[4096];
      if (!::realpath(baseDir.c_str(), rb)) sim::fail("harness", "realpath base");
      std::string rbase = std::string(rb) + "/";
      if (real.compare(0, rbase.size(), rbase) != 0) sim::fail("c20-escape", "'%s' was served although it resolves to %s, outside %s", l.name.c_str(), real.c_str(), rb);
      struct stat sb;
      if (::stat(real.c_str(), &sb) != 0 || !S_ISREG(sb.st_mode)) sim::fail("c20-not-regular", "'%s' was served but %s is not a regular file", l.name.c_str(), real.c_str());
      if (slurp_real(real) != l.body) sim::fail("c20-wrong-bytes", "'%s' was served with bytes that are not the content of %s", l.name.c_str(), real.c_str());
    }
  size_t total = 0;
  for (auto& v : results) total += v.size();
  sim::count("c20.lookups", total);
  sim::count("c20.found", found);
  sim::count("c20.exact_checks", exact);
  sim::count("c20.swaps", (uint64_t)nswaps);
  sim::state_mix(found * 131 + total * 7 + (uint64_t)mode);
  sim::finish_ok();
}
