// C19 (cache clause): iora::network::dns::DnsCache / iora::util::ExpiringCache against a reference map on the simulated clock.
// An answer is served only for the same question (name compared case-insensitively, type and class) and never once the
// smallest record TTL - or the negative-caching TTL - has elapsed.
#include "common.h"
#include "iora/core/logger.hpp"
#include "iora/network/dns/dns_cache.hpp"

#include <map>
#include <thread>
#include <tuple>
#include <vector>

using namespace iora::network::dns;

namespace
{
struct MEntry { uint64_t id; bool negative; uint64_t expires_ns; };
typedef std::tuple<std::string, int, int> Key;
std::string lower(std::string s) { for (auto& c : s) c = (char)tolower((unsigned char)c); return s; }
enum OpK { PUT, PUT_NEG_SOA, PUT_NEG_TTL, GET, REMOVE, CLEAR, ADVANCE, NOPK };
const char* opn[] = {"put", "putNegative(SOA)", "putNegative(ttl)", "get", "remove", "clear", "advance"};
struct Op { int k; std::string name; int type; int cls = 1; std::vector<uint32_t> ttls; std::vector<int> secs; uint32_t soaMin = 0, soaTtl = 0; uint64_t adv_ms = 0; };
DnsResult make_result(uint64_t id, const std::vector<uint32_t>& ttls, const std::vector<int>& secs)
{
  DnsResult r;
  // identity marker that survives the cache (first CNAME record)
  r.cname_records.push_back(CnameRecord("id", "v" + std::to_string(id), UINT32_MAX));
  r.header.rcode = DnsResponseCode::NOERROR;
  for (size_t i = 0; i < ttls.size(); i++)
  {
    // each record goes to the section the plan drew for it: the smallest TTL of ALL of them counts
    switch (secs[i] % 11)
    {
    case 0: r.a_records.push_back(ARecord("x.example", "10.0.0." + std::to_string(id % 250), ttls[i])); break;
    case 1: { DnsResourceRecord rr("x.example", DnsType::A, DnsClass::IN, ttls[i]); r.answers.push_back(rr); break; }
    case 2: { DnsResourceRecord rr("ns.example", DnsType::NS, DnsClass::IN, ttls[i]); r.authority.push_back(rr); break; }
    case 3: { DnsResourceRecord rr("glue.example", DnsType::A, DnsClass::IN, ttls[i]); r.additional.push_back(rr); break; }
    case 4: r.aaaa_records.push_back(AAAARecord("x.example", "::1", ttls[i])); break;
    case 5: r.srv_records.push_back(SrvRecord("_sip._udp.example", 1, 2, 5060, "x.example", ttls[i])); break;
    case 6: r.naptr_records.push_back(NaptrRecord("example", 1, 2, "S", "SIP+D2U", "", "_sip._udp.example", ttls[i])); break;
    case 7: r.mx_records.push_back(MxRecord("example", 10, "mx.example", ttls[i])); break;
    case 8: r.txt_records.push_back(TxtRecord("example", {"t"}, ttls[i])); break;
    case 9: r.ptr_records.push_back(PtrRecord("1.0.0.10.in-addr.arpa", "x.example", ttls[i])); break;
    default: r.cname_records.push_back(CnameRecord("alias.example", "x.example", ttls[i])); break;
    }
  }
  r.header.id = (uint16_t)id;
  r.header.ancount = (uint16_t)r.answers.size();
  return r;
}
uint64_t result_id(const DnsResult& r)
{
  if (r.cname_records.empty()) return 0;
  return strtoull(r.cname_records[0].cname.c_str() + 1, nullptr, 10);
}
} // namespace

extern "C" HarnessInfo harness_info() { return {"c19_dnscache", "C19", 30}; }

extern "C" void harness_run()
{
  iora::core::Logger::setLevel(iora::core::Logger::Level::Fatal);
  bool th = hx::thorough();
  static const char* names[] = {"a.example", "A.Example", "a.EXAMPLE", "b.example", "aa.example", "sip.a.example"};
  static const int types[] = {(int)DnsType::A, (int)DnsType::AAAA, (int)DnsType::SRV};
  static const uint32_t ttlv[] = {0, 1, 2, 5, 60, 300, 3600, 0x80000000u, 0xFFFFFFFFu, 7};
  int n = 6 + (int)sim::draw(th ? 60 : 30);
  std::vector<Op> plan;
  std::vector<uint32_t> pending;
  bool hugeUsed = false;
  uint32_t defaultTtl = sim::draw(2) ? 300 : 30;
  for (int i = 0; i < n; i++)
  {
    Op o;
    static const int mix[] = {PUT, PUT, PUT, PUT_NEG_SOA, PUT_NEG_TTL, GET, GET, GET, GET, REMOVE, CLEAR, ADVANCE, ADVANCE, ADVANCE, ADVANCE};
    o.k = mix[sim::draw(15)];
    o.name = names[sim::draw(6)];
    o.type = types[sim::draw(3)];
    o.cls = sim::draw(5) == 0 ? (int)DnsClass::CH : (int)DnsClass::IN;
    int nr = (int)sim::draw(5);
    if (o.k == PUT && sim::draw(5) != 0 && nr == 0) nr = 1;
    for (int r = 0; r < nr; r++) { o.ttls.push_back(ttlv[sim::draw(10)]); o.secs.push_back((int)sim::draw(11)); }
    o.soaMin = ttlv[sim::draw(10)];
    o.soaTtl = ttlv[sim::draw(10)];
    if (o.k == PUT) { uint32_t m = defaultTtl; bool any = false; for (auto t : o.ttls) { if (!any || t < m) m = t; any = true; } pending.push_back(m); }
    if (o.k == PUT_NEG_SOA) pending.push_back(std::min(o.soaMin, o.soaTtl));
    if (o.k == PUT_NEG_TTL) pending.push_back(o.soaTtl);
    if (o.k == ADVANCE)
    {
      uint64_t base = pending.empty() ? 1 : pending[sim::draw(pending.size())];
      if (base > 4000000000ull) base = 4294967295ull;
      static const int64_t offs[] = {-1, 0, 1, -999, 999};
      int64_t ms = (int64_t)base * 1000 + offs[sim::draw(5)];
      if (sim::draw(4) == 0) ms = 1 + (int64_t)sim::draw(7000);
      if (ms <= 0) ms = 1;
      // the monotonic clock is a signed 64-bit nanosecond count (292 years): allow one multi-decade jump per run at most
      if (ms > 100000000ll) { if (hugeUsed) ms = 1 + (int64_t)sim::draw(7000); else hugeUsed = true; }
      o.adv_ms = (uint64_t)ms;
    }
    plan.push_back(o);
  }
  {
    std::string l = "defaultTtl=" + std::to_string(defaultTtl) + "s:";
    for (auto& o : plan)
    {
      l += std::string(" ") + opn[o.k];
      if (o.k == PUT) { l += "(" + o.name + ",ttls"; for (size_t i = 0; i < o.ttls.size(); i++) l += ":" + std::to_string(o.ttls[i]) + "@s" + std::to_string(o.secs[i]); l += ")"; }
      else if (o.k == PUT_NEG_SOA) l += "(" + o.name + ",min=" + std::to_string(o.soaMin) + ",ttl=" + std::to_string(o.soaTtl) + ")";
      else if (o.k == PUT_NEG_TTL) l += "(" + o.name + "," + std::to_string(o.soaTtl) + "s)";
      else if (o.k == GET || o.k == REMOVE) l += "(" + o.name + ")";
      else if (o.k == ADVANCE) l += "(" + std::to_string(o.adv_ms) + "ms)";
    }
    sim::notef("%s", l.c_str());
  }
  sim::Config cfg;
  cfg.strategy = sim::draw(2) ? sim::STICKY : sim::RANDOM; // the purge thread interleaves at lock operations
  cfg.preempt_permille = 100;
  cfg.step_ns = 0; // time frozen inside operations: store and model see the same instant
  cfg.max_steps = 4000000;
  sim::begin(cfg);
  std::map<Key, MEntry> m;
  {
    DnsCache cache{std::chrono::seconds(defaultTtl)};
    uint64_t idc = 0;
    int step = 0;
    size_t hits = 0, expiredProbes = 0, earlyMiss = 0;
    auto check_get = [&](const std::string& name, int type, int cls, const char* ctx)
    {
      DnsQuestion q(name, (DnsType)type, (DnsClass)cls);
      DnsResult r;
      bool got = cache.get(q, r);
      Key k{lower(name), type, cls};
      auto it = m.find(k);
      uint64_t now = sim::now();
      bool want = it != m.end() && now < it->second.expires_ns;
      if (it != m.end() && now >= it->second.expires_ns) expiredProbes++;
      if (got && !want)
      {
        if (it == m.end())
          sim::fail("c19-wrong-question", "step %d %s: get(%s,type %d,class %d) was answered from the cache although nothing is cached for this question", step, ctx, name.c_str(), type, cls);
        sim::fail("c19-served-after-ttl", "step %d %s: get(%s,type %d) was answered from the cache %.3f s after its %s TTL had elapsed", step, ctx, name.c_str(), type,
                  (now - it->second.expires_ns) / 1e9, it->second.negative ? "negative-caching" : "smallest record");
      }
      // a miss before expiry is not a violation: the property bounds how LONG an answer may be served, not that it must be
      // (DnsCache e.g. keeps an answer whose smallest TTL is 2^32-1 only for its default TTL)
      if (!got && want) earlyMiss++;
      if (got)
      {
        hits++;
        if (result_id(r) != it->second.id) sim::fail("c19-wrong-answer", "step %d %s: get(%s) returned answer %llu, the last one cached was %llu", step, ctx, name.c_str(),
                                                     (unsigned long long)result_id(r), (unsigned long long)it->second.id);
      }
    };
    for (auto& o : plan)
    {
      step++;
      DnsQuestion q(o.name, (DnsType)o.type, (DnsClass)o.cls);
      Key k{lower(o.name), o.type, o.cls};
      uint64_t now = sim::now();
      switch (o.k)
      {
      case PUT:
      {
        uint64_t id = ++idc;
        DnsResult r = make_result(id, o.ttls, o.secs);
        cache.put(q, r);
        uint64_t ttl = defaultTtl; // no record at all: the configured default
        bool any = false;
        for (auto t : o.ttls) { if (!any || t < ttl) ttl = t; any = true; }
        m[k] = {id, false, now + ttl * 1000000000ull};
        break;
      }
      case PUT_NEG_SOA:
      {
        uint64_t id = ++idc;
        DnsResult r = make_result(id, {}, {});
        r.header.rcode = DnsResponseCode::NXDOMAIN;
        r.soa_records.push_back(SoaRecord("example", "ns.example", "root.example", 1, 2, 3, 4, o.soaMin, o.soaTtl));
        cache.putNegative(q, r, "nxdomain");
        uint64_t ttl = std::min(o.soaMin, o.soaTtl);
        m[k] = {id, true, now + ttl * 1000000000ull};
        break;
      }
      case PUT_NEG_TTL:
      {
        uint64_t id = ++idc;
        DnsResult r = make_result(id, {}, {});
        r.header.rcode = DnsResponseCode::NXDOMAIN;
        cache.putNegative(q, r, o.soaTtl, "nxdomain");
        m[k] = {id, true, now + (uint64_t)o.soaTtl * 1000000000ull};
        break;
      }
      case GET: check_get(o.name, o.type, o.cls, "get"); break;
      case REMOVE: cache.remove(q); m.erase(k); break;
      case CLEAR: cache.clear(); m.clear(); break;
      case ADVANCE:
        // short advances are slept (the purge thread runs every 5 s); long ones jump the clock in one go
        if (o.adv_ms <= 600000) sim::sleep_ns(o.adv_ms * 1000000ull);
        else { sim::advance_ns(o.adv_ms * 1000000ull); sim::sleep_ns(6000000000ull); }
        break;
      }
      // after every step: probe every question (all spellings, all types)
      for (auto nm : names) for (int t : types) for (int c : {(int)DnsClass::IN, (int)DnsClass::CH}) check_get(nm, t, c, opn[o.k]);
    }
    sim::count("c19.cache_steps", (uint64_t)step);
    sim::count("c19.cache_hits", hits);
    sim::count("c19.early_misses", earlyMiss);
    sim::count("c19.expired_entry_probes", expiredProbes);
    sim::state_mix((uint64_t)step * 31 + hits * 7 + expiredProbes);
  }
  sim::finish_ok();
}
