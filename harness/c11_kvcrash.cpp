// C11: crash consistency of iora::storage::KVStore (mode "kv") and JsonFileStore (mode "json").
// One generated history runs against the real store with every mutating file operation logged (simrt/fs.cpp). Then EVERY crash
// image - the directory as of each file operation, and cuts inside each write - is materialised, reopened by a fresh store and
// compared with the set of admissible states; a continuation (more operations, clean close, reopen) is checked exactly.
#include "common.h"
#include "iora/core/logger.hpp"
#include "iora/storage/json_file_store.hpp"
#include "iora/storage/kvstore.hpp"

#include <map>
#include <optional>
#include <set>
#include <sys/stat.h>
#include <vector>

using namespace iora::storage;
typedef std::vector<std::uint8_t> Bytes;
typedef std::map<std::string, Bytes> Model;

namespace
{
enum OpK { SET, SET_TTL, SETBATCH, REMOVE, REMOVE_PREFIX, CLEAR, EXPIRE_AT, PERSIST, COMPACT, NOPK };
const char* opn[] = {"set", "set-ttl", "setBatch", "remove", "removeWithPrefix", "clear", "expireAt", "persist", "compact"};
struct Op
{
  int k;
  std::string key;
  Bytes val;
  std::map<std::string, Bytes> batch;
  size_t fs_from = 0, fs_to = 0; // file operations issued by this history operation
};
const char* KEYS[] = {"a", "ab", "b", "k3", "zz"};
Bytes mkval(uint64_t id, size_t n)
{
  Bytes v(n);
  for (size_t i = 0; i < n; i++) v[i] = hx::keyed(id, i);
  if (n >= 4) { v[0] = 'V'; v[1] = (uint8_t)(id >> 8); v[2] = (uint8_t)id; v[3] = ':'; }
  return v;
}
void apply_model(Model& m, const Op& o)
{
  switch (o.k)
  {
  case SET: case SET_TTL: m[o.key] = o.val; break;
  case SETBATCH: for (auto& kv : o.batch) m[kv.first] = kv.second; break;
  case REMOVE: m.erase(o.key); break;
  case REMOVE_PREFIX: for (auto it = m.begin(); it != m.end();) { if (it->first.compare(0, o.key.size(), o.key) == 0) it = m.erase(it); else ++it; } break;
  case CLEAR: m.clear(); break;
  default: break; // expireAt (far future), persist, compact: no change of the visible map
  }
}
std::set<std::string> touched(const Op& o, const Model& before)
{
  std::set<std::string> t;
  switch (o.k)
  {
  case SET: case SET_TTL: case REMOVE: case EXPIRE_AT: case PERSIST: t.insert(o.key); break;
  case SETBATCH: for (auto& kv : o.batch) t.insert(kv.first); break;
  case REMOVE_PREFIX: for (auto& kv : before) if (kv.first.compare(0, o.key.size(), o.key) == 0) t.insert(kv.first); break;
  case CLEAR: for (auto& kv : before) t.insert(kv.first); break;
  default: break;
  }
  return t;
}
void apply_store(KVStore& s, const Op& o)
{
  auto far = std::chrono::system_clock::now() + std::chrono::hours(24 * 365);
  switch (o.k)
  {
  case SET: s.set(o.key, o.val); break;
  case SET_TTL: s.set(o.key, o.val, std::chrono::seconds(86400 * 300)); break;
  case SETBATCH: { std::unordered_map<std::string, Bytes> b(o.batch.begin(), o.batch.end()); s.setBatch(b); break; }
  case REMOVE: s.remove(o.key); break;
  case REMOVE_PREFIX: s.removeWithPrefix(o.key); break;
  case CLEAR: s.clear(); break;
  case EXPIRE_AT: s.expireAt(o.key, far); break;
  case PERSIST: s.persist(o.key); break;
  case COMPACT: s.compact(); break;
  }
}
Model read_all(KVStore& s)
{
  Model m;
  for (auto& k : s.keys())
  {
    auto v = s.get(k);
    if (v) m[k] = *v;
  }
  return m;
}
std::string show(const std::optional<Bytes>& v)
{
  if (!v) return "<absent>";
  return "\"" + hx::hex(std::string(v->begin(), v->end()), 6) + "\"(" + std::to_string(v->size()) + "B)";
}
std::optional<Bytes> look(const Model& m, const std::string& k)
{
  auto it = m.find(k);
  if (it == m.end()) return std::nullopt;
  return it->second;
}
Op draw_op(uint64_t& idc, bool th)
{
  Op o;
  static const int mix[] = {SET, SET, SET, SET_TTL, SETBATCH, REMOVE, REMOVE, REMOVE_PREFIX, CLEAR, EXPIRE_AT, PERSIST, COMPACT};
  o.k = mix[sim::draw(12)];
  o.key = KEYS[sim::draw(5)];
  static const size_t szs[] = {0, 1, 3, 20, 100, 9000, 300};
  size_t sz = szs[sim::draw(th ? 7 : 6)];
  o.val = mkval(++idc, sz);
  if (o.k == SETBATCH)
  {
    int n = 1 + (int)sim::draw(3);
    for (int i = 0; i < n; i++) o.batch[KEYS[sim::draw(5)]] = mkval(++idc, szs[sim::draw(5)]);
  }
  if (o.k == REMOVE_PREFIX) o.key = sim::draw(2) ? "a" : "k";
  return o;
}
std::string op_str(const Op& o)
{
  std::string s = opn[o.k];
  if (o.k == SETBATCH) { s += "{"; for (auto& kv : o.batch) s += kv.first + ":" + std::to_string(kv.second.size()) + "B "; s += "}"; }
  else if (o.k != CLEAR && o.k != COMPACT) s += "(" + o.key + (o.k == SET || o.k == SET_TTL ? "," + std::to_string(o.val.size()) + "B" : "") + ")";
  return s;
}

// ------------------------------------------------------------------ JSON file store mode
void run_json(bool th)
{
  iora::core::Logger::setLevel(iora::core::Logger::Level::Fatal);
  struct JOp { int k; std::string key, val; size_t fs_from = 0, fs_to = 0; }; // 0 set 1 remove 2 flush
  std::vector<JOp> hist;
  int n = 2 + (int)sim::draw(th ? 12 : 7);
  uint64_t idc = 0;
  for (int i = 0; i < n; i++)
  {
    JOp o;
    uint64_t r = sim::draw(6);
    o.k = r <= 2 ? 0 : r == 3 ? 1 : 2;
    o.key = KEYS[sim::draw(5)];
    o.val = "v" + std::to_string(++idc) + std::string(sim::draw(3) == 0 ? 300 : sim::draw(20), 'x');
    hist.push_back(o);
  }
  hist.push_back({2, "", ""});
  {
    std::string l = "json history:";
    for (auto& o : hist) l += o.k == 0 ? " set(" + o.key + ")" : o.k == 1 ? " remove(" + o.key + ")" : " flush";
    sim::notef("%s", l.c_str());
  }
  sim::Config cfg;
  cfg.strategy = sim::RR;
  sim::begin(cfg);
  std::string root = sim::scratch_dir() + "/live";
  mkdir(root.c_str(), 0700);
  JsonFileStore::setFlushInterval(std::chrono::milliseconds(3600000)); // no background flush: flushes are explicit operations
  typedef std::map<std::string, std::string> JM;
  std::vector<JM> flushed; // contents as of each completed flush
  std::vector<size_t> flushEndOp;
  JM cur;
  {
    sim::fs::track(root);
    JsonFileStore s(root + "/store.json");
    bool dirty = false;
    for (auto& o : hist)
    {
      o.fs_from = sim::fs::ops().size();
      if (o.k == 0) { s.set(o.key, o.val); cur[o.key] = o.val; dirty = true; }
      else if (o.k == 1) { if (cur.count(o.key)) dirty = true; s.remove(o.key); cur.erase(o.key); }
      else { s.flush(); if (dirty) { flushed.push_back(cur); flushEndOp.push_back(sim::fs::ops().size()); dirty = false; } }
      o.fs_to = sim::fs::ops().size();
    }
    sim::fs::untrack();
  }
  const auto& ops = sim::fs::ops();
  size_t images = 0, cuts = 0;
  auto check_image = [&](size_t nfs, size_t cut)
  {
    std::string dir = sim::scratch_dir() + "/img";
    std::string cmd = "rm -rf '" + dir + "'";
    if (system(cmd.c_str()) != 0) sim::fail("harness", "rm failed");
    if (!sim::fs::build_image(dir, nfs, cut)) sim::fail("harness", "image build failed");
    images++;
    // which flushes had completed / are in progress at this point
    int completed = -1;
    for (size_t f = 0; f < flushEndOp.size(); f++) if (flushEndOp[f] <= nfs) completed = (int)f;
    JM got;
    {
      JsonFileStore r(dir + "/store.json");
      for (auto k : KEYS) { auto v = r.get(k); if (v) got[k] = *v; }
    }
    if (completed < 0 && (size_t)(completed + 1) >= flushed.size()) return;
    std::vector<const JM*> admissible;
    if (completed >= 0) admissible.push_back(&flushed[completed]);
    if ((size_t)(completed + 1) < flushed.size()) admissible.push_back(&flushed[completed + 1]);
    if (completed < 0) { static const JM empty; admissible.push_back(&empty); }
    for (auto* a : admissible) if (*a == got) return;
    std::string g;
    for (auto& kv : got) g += kv.first + "=" + kv.second.substr(0, 6) + " ";
    sim::fail(got.empty() ? "c11-json-empty-after-crash" : "c11-json-wrong-after-crash",
              "crash at file operation %zu%s: the store reopened with {%s} (%zu keys), which is neither the last completed flush (#%d, %zu keys) nor the flush in progress", nfs,
              cut == SIZE_MAX ? "" : (" after " + std::to_string(cut) + " bytes of the write").c_str(), g.c_str(), got.size(), completed,
              completed >= 0 ? flushed[completed].size() : 0);
  };
  for (size_t i = 0; i <= ops.size(); i++)
  {
    check_image(i, SIZE_MAX);
    if (i < ops.size() && ops[i].kind == sim::fs::Op::WRITE)
    {
      size_t len = ops[i].data.size();
      std::set<size_t> ks = {1, len / 2, len - 1};
      if (len <= 64) for (size_t k = 1; k < len; k++) ks.insert(k);
      for (size_t k : ks) if (k > 0 && k < len) { check_image(i, k); cuts++; }
    }
  }
  sim::count("c11.json_images", images);
  sim::count("c11.json_write_cuts", cuts);
  sim::count("c11.json_flushes", flushed.size());
  sim::count("fs.ops", ops.size());
  sim::state_mix(images * 31 + flushed.size());
  sim::finish_ok();
}
} // namespace

extern "C" HarnessInfo harness_info() { return {"c11_kvcrash", "C11", 150}; }

extern "C" void harness_run()
{
  iora::core::Logger::setLevel(iora::core::Logger::Level::Fatal);
  bool th = hx::thorough();
  if (std::string(sim::mode()) == "json") { run_json(th); return; }
  // ---- history
  uint64_t idc = 0;
  int n = 1 + (int)sim::draw(th ? 12 : 8);
  std::vector<Op> hist;
  for (int i = 0; i < n; i++) hist.push_back(draw_op(idc, th));
  KVStoreConfig kc;
  kc.enableBackgroundCompaction = false;
  static const uint32_t logMax[] = {10u * 1024 * 1024, 60, 400, 3000};
  kc.maxLogSizeBytes = logMax[sim::draw(4)]; // tiny limits: implicit compaction inside ordinary operations
  kc.maxCacheSize = sim::draw(2) ? 1000 : 2;
  int ncont = (int)sim::draw(4);
  std::vector<Op> cont;
  for (int i = 0; i < ncont; i++) cont.push_back(draw_op(idc, th));
  bool secondCrash = th && sim::draw(3) == 0;
  {
    std::string l = "history:";
    for (auto& o : hist) l += " " + op_str(o);
    sim::notef("%s", l.c_str());
    l = "continuation after each crash image:";
    for (auto& o : cont) l += " " + op_str(o);
    sim::notef("%s | maxLogSize=%u cache=%u", l.c_str(), kc.maxLogSizeBytes, kc.maxCacheSize);
  }
  sim::Config cfg;
  cfg.strategy = sim::RR; // the history itself is sequential; the wheel/eviction threads only exist when a TTL is set
  sim::begin(cfg);
  std::string root = sim::scratch_dir() + "/live";
  mkdir(root.c_str(), 0700);

  // ---- run the history once against the real store, logging every mutating file operation
  std::vector<Model> M(1);
  {
    sim::fs::track(root);
    KVStore s(root + "/store", kc);
    for (auto& o : hist)
    {
      o.fs_from = sim::fs::ops().size();
      apply_store(s, o);
      o.fs_to = sim::fs::ops().size();
      Model m = M.back();
      apply_model(m, o);
      M.push_back(m);
      // sanity: the live store agrees with the model (fault-free)
      Model live = read_all(s);
      if (live != m) sim::fail("c11-live-mismatch", "after %s the live store holds %zu keys, the reference map %zu", op_str(o).c_str(), live.size(), m.size());
    }
    s.shutdown();
    sim::fs::untrack();
  }
  const auto& ops = sim::fs::ops();
  size_t images = 0, cuts = 0, conts = 0;
  auto op_of = [&](size_t nfs) -> int
  {
    for (size_t j = 0; j < hist.size(); j++) if (nfs >= hist[j].fs_from && nfs < hist[j].fs_to) return (int)j;
    return -1; // between operations / after the history
  };
  auto completed_before = [&](size_t nfs) -> size_t
  {
    size_t c = 0;
    for (size_t j = 0; j < hist.size(); j++) if (hist[j].fs_to <= nfs) c = j + 1;
    return c;
  };
  auto check_image = [&](size_t nfs, size_t cut)
  {
    std::string dir = sim::scratch_dir() + "/img";
    std::string cmd = "rm -rf '" + dir + "'";
    if (system(cmd.c_str()) != 0) sim::fail("harness", "rm failed");
    if (!sim::fs::build_image(dir, nfs, cut)) sim::fail("harness", "image build failed");
    images++;
    int j = op_of(nfs);
    size_t done = completed_before(nfs);
    const Model& before = M[done];
    const Model* after = (j >= 0) ? &M[(size_t)j + 1] : nullptr;
    std::set<std::string> tk;
    if (j >= 0) tk = touched(hist[(size_t)j], M[(size_t)j]);
    std::string where = "crash at file operation " + std::to_string(nfs) + "/" + std::to_string(ops.size()) +
                        (cut == SIZE_MAX ? "" : " after " + std::to_string(cut) + " bytes of the write") +
                        (j >= 0 ? " inside " + op_str(hist[(size_t)j]) : " between operations") + " (" + std::to_string(done) + " operations had returned)";
    Model got;
    try
    {
      KVStore r(dir + "/store", kc);
      got = read_all(r);
      // every key: old or (for keys touched by the in-flight operation) new
      std::set<std::string> allk;
      for (auto& kv : before) allk.insert(kv.first);
      for (auto& kv : got) allk.insert(kv.first);
      if (after) for (auto& kv : *after) allk.insert(kv.first);
      for (auto& k : allk)
      {
        auto g = look(got, k), b = look(before, k);
        if (g == b) continue;
        if (after && tk.count(k) && g == look(*after, k)) continue;
        const char* orc = !g ? "c11-acked-write-lost" : (!b && !(after && look(*after, k)) ? "c11-resurrected" : "c11-wrong-value");
        sim::fail(orc, "%s: key '%s' recovered as %s; admissible: %s%s", where.c_str(), k.c_str(), show(g).c_str(), show(b).c_str(),
                  (after && tk.count(k)) ? (" or " + show(look(*after, k))).c_str() : "");
      }
      // continuation on the recovered store, then clean close and reopen: exact equality with the model started from what was observed
      if (!cont.empty())
      {
        Model cm = got;
        for (auto& o : cont) { apply_store(r, o); apply_model(cm, o); }
        r.shutdown();
        conts++;
        KVStore r2(dir + "/store", kc);
        Model got2 = read_all(r2);
        if (got2 != cm)
        {
          std::string diff;
          std::set<std::string> ks;
          for (auto& kv : cm) ks.insert(kv.first);
          for (auto& kv : got2) ks.insert(kv.first);
          for (auto& k : ks) if (look(cm, k) != look(got2, k)) diff += "'" + k + "': expected " + show(look(cm, k)) + " got " + show(look(got2, k)) + "; ";
          sim::fail("c11-continuation-lost", "%s: reopened fine, then %zu more acknowledged operations and a CLEAN close; after the next reopen: %s", where.c_str(), cont.size(), diff.c_str());
        }
      }
    }
    catch (const std::exception& e)
    {
      sim::fail("c11-reopen-throws", "%s: reopening the store threw: %s", where.c_str(), e.what());
    }
    (void)secondCrash;
  };
  for (size_t i = 0; i <= ops.size(); i++)
  {
    check_image(i, SIZE_MAX);
    if (i < ops.size() && ops[i].kind == sim::fs::Op::WRITE)
    {
      size_t len = ops[i].data.size();
      std::set<size_t> ks = {1, 3, 4, 5, 8, 9, len / 2, len - 5, len - 4, len - 3, len - 1};
      if (len <= 128) for (size_t k = 1; k < len; k++) ks.insert(k);
      else for (int d = 0; d < 6; d++) ks.insert(1 + sim::draw(len - 1));
      for (size_t k : ks) if (k > 0 && k < len) { check_image(i, k); cuts++; }
    }
  }
  sim::count("c11.images", images);
  sim::count("c11.write_cuts", cuts);
  sim::count("c11.continuations", conts);
  sim::count("fs.ops", ops.size());
  size_t renames = 0, truncs = 0;
  for (auto& o : ops) { if (o.kind == sim::fs::Op::RENAME) renames++; if (o.kind == sim::fs::Op::OPEN_TRUNC || o.kind == sim::fs::Op::TRUNCATE) truncs++; }
  sim::count("fs.renames", renames);
  sim::count("fs.truncations", truncs);
  sim::state_mix(images * 131 + ops.size() * 7 + hist.size());
  sim::finish_ok();
}
