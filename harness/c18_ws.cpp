// C18: WebSocket framing round-trips and reassembles under any segmentation.
// Modes: "server" (a raw peer talks to a real WebSocketServer), "client" (a scripted raw server talks to a real WebSocketClient).
// The peer uses its own frame encoder/decoder (wsgen.h). Streams of fragmented messages with interleaved control frames are cut
// into separately delivered segments; application threads keep sending while the close handshake runs; hostile variants declare
// impossible lengths.
#include "common.h"
#include "netpeer.h"
#include "wsgen.h"
#include "iora/core/logger.hpp"
#include "iora/network/websocket_client.hpp"
#include "iora/network/websocket_server.hpp"

#include <atomic>
#include <condition_variable>
#include <mutex>
#include <thread>

using namespace iora::network;

namespace
{
const size_t appSizes[5] = {125, 126, 65535, 65536, 127}; // lengths around the 7/16/64-bit encodings
struct Plan
{
  wsg::Planned p;
  std::string bytes;
  std::vector<size_t> cuts;
  int hostile = 0; // 0 none, else a hostile tail is appended after the planned frames (no CLOSE then)
  std::string hostileWhat;
  std::string hostileBytes;
  size_t floodBytes = 0;
};
enum { H_NONE, H_ALL_ONES, H_CTRL_126, H_CTRL_127, H_OVER_MAX, H_HUGE, H_FRAGMENTED_PING, H_RESERVED_OPCODE, H_RSV_BITS, H_RANDOM, H_N };

Plan make_plan(bool masked, size_t maxMsg, bool th)
{
  Plan P;
  auto& p = P.p;
  int nmsg = 1 + (int)sim::draw(th ? 6 : 4);
  auto key_of = [&](wsg::Frame& f) { f.masked = masked; if (masked) { uint64_t k = sim::draw(1ull << 32); memcpy(f.key, &k, 4); } };
  auto control = [&]()
  {
    wsg::Frame c;
    c.opcode = sim::draw(3) == 0 ? wsg::OP_PONG : wsg::OP_PING;
    static const size_t ls[] = {0, 1, 4, 125, 17};
    c.payload = hx::keyed_bytes(sim::draw(1u << 20), ls[sim::draw(5)]);
    key_of(c);
    if (c.opcode == wsg::OP_PING) p.pings.push_back(c.payload);
    p.frames.push_back(c);
  };
  bool stopHere = false;
  for (int m = 0; m < nmsg && !stopHere; m++)
  {
    if (sim::draw(4) == 0) control();
    wsg::Msg msg;
    msg.text = sim::draw(2) == 0;
    static const size_t sizes[] = {0, 1, 2, 125, 126, 127, 300, 1000, 65535, 65536, 70000, 5};
    size_t n = std::min(sizes[sim::draw(12)], maxMsg);
    if (msg.text)
    {
      if (sim::draw(8) == 7) { msg.payload = wsg::invalid_utf8(sim::draw(1000)); msg.validUtf8 = false; stopHere = true; }
      else { msg.payload = wsg::utf8_text(sim::draw(1u << 30), n); if (msg.payload.size() > maxMsg) msg.payload.resize(0); }
    }
    else msg.payload = hx::keyed_bytes(sim::draw(1u << 30), n);
    // fragments
    size_t L = msg.payload.size();
    std::vector<size_t> cuts;
    int fm = (int)sim::draw(4);
    if (fm == 1 && L > 1) cuts.push_back(1 + sim::draw(L - 1));
    if (fm == 2) for (int k = 0; k < 3 && L > 1; k++) cuts.push_back(1 + sim::draw(L - 1));
    if (fm == 3) { cuts.push_back(0); if (L) cuts.push_back(L); } // empty first / last fragments
    std::sort(cuts.begin(), cuts.end());
    size_t from = 0;
    std::vector<std::string> parts;
    for (size_t c : cuts) { parts.push_back(msg.payload.substr(from, c - from)); from = c; }
    parts.push_back(msg.payload.substr(from));
    for (size_t i = 0; i < parts.size(); i++)
    {
      wsg::Frame f;
      f.opcode = i == 0 ? (msg.text ? wsg::OP_TEXT : wsg::OP_BIN) : wsg::OP_CONT;
      f.fin = i + 1 == parts.size();
      f.payload = parts[i];
      key_of(f);
      p.frames.push_back(f);
      if (!f.fin && sim::draw(3) == 0) control(); // control frame between fragments
    }
    p.msgs.push_back(msg);
  }
  if (sim::draw(4) == 0) control();
  int hz = sim::draw(4) == 3 ? 1 + (int)sim::draw(H_N - 1) : 0;
  P.hostile = hz;
  if (!hz && sim::draw(2))
  {
    p.endsWithClose = true;
    static const int codes[] = {1000, 1001, 3000, 4999};
    p.closeCode = codes[sim::draw(4)];
    p.closeReason = sim::draw(2) ? "" : "bye \xE2\x82\xAC";
    wsg::Frame c;
    c.opcode = wsg::OP_CLOSE;
    c.payload.push_back((char)(p.closeCode >> 8));
    c.payload.push_back((char)(p.closeCode & 255));
    c.payload += p.closeReason;
    key_of(c);
    p.frames.push_back(c);
  }
  for (auto& f : p.frames) P.bytes += wsg::encode(f);
  if (hz)
  {
    unsigned char mk = masked ? 0x80 : 0;
    std::string h;
    switch (hz)
    {
    case H_ALL_ONES: P.hostileWhat = "a 10-byte header declaring 2^64-1 payload bytes"; h = std::string(1, (char)0x82) + (char)(mk | 127) + std::string(8, (char)0xFF); break;
    case H_CTRL_126: P.hostileWhat = "a PING whose length code is 126"; h = std::string(1, (char)0x89) + (char)(mk | 126) + std::string("\x00\x7e", 2); break;
    case H_CTRL_127: P.hostileWhat = "a CLOSE whose length code is 127"; h = std::string(1, (char)0x88) + (char)(mk | 127) + std::string(8, '\0'); break;
    case H_OVER_MAX: P.hostileWhat = "a binary frame declaring twice the configured maximum message size"; { uint64_t n = 2 * (uint64_t)maxMsg + 70000; h = std::string(1, (char)0x82) + (char)(mk | 127); for (int i = 7; i >= 0; i--) h.push_back((char)(n >> (i * 8))); } break;
    case H_HUGE: P.hostileWhat = "a binary frame declaring 2^40 payload bytes"; h = std::string(1, (char)0x82) + (char)(mk | 127) + std::string("\x00\x00\x01\x00\x00\x00\x00\x00", 8); break;
    case H_FRAGMENTED_PING: P.hostileWhat = "a PING without FIN"; h = std::string(1, (char)0x09) + (char)(mk | 0); break;
    case H_RESERVED_OPCODE: P.hostileWhat = "a frame with reserved opcode 0xB"; h = std::string(1, (char)0x8B) + (char)(mk | 0); break;
    case H_RSV_BITS: P.hostileWhat = "a frame with RSV1 set"; h = std::string(1, (char)0xC1) + (char)(mk | 1); break;
    default: P.hostileWhat = "random bytes"; h = hx::keyed_bytes(sim::draw(1u << 30), 2 + sim::draw(40)); break;
    }
    if (masked && hz != H_RANDOM) h += "\x11\x22\x33\x44";
    P.hostileBytes = h;
    // what follows: enough bytes to show whether the endpoint buffers without bound
    P.floodBytes = 4 * maxMsg + 1024 * 1024;
  }
  size_t L = P.bytes.size();
  switch (sim::draw(5))
  {
  case 0: break;
  case 1: if (L > 1) P.cuts.push_back(1 + sim::draw(L - 1)); break;
  case 2: { size_t ncut = 1 + L / 50; for (size_t k = 0; k < ncut && k < 300 && L > 1; k++) P.cuts.push_back(1 + sim::draw(L - 1)); break; }
  case 3: // around every frame header
  {
    size_t off = 0;
    for (auto& f : p.frames) { size_t fl = wsg::encode(f).size(); for (size_t d = 1; d <= 14 && d < fl; d += 1 + sim::draw(3)) P.cuts.push_back(off + d); off += fl; if (P.cuts.size() > 400) break; }
    break;
  }
  default: if (L <= 700) for (size_t q = 1; q < L; q++) P.cuts.push_back(q); else { size_t step = 1 + sim::draw(60); for (size_t q = step; q < L && P.cuts.size() < 400; q += step) P.cuts.push_back(q); } break;
  }
  std::sort(P.cuts.begin(), P.cuts.end());
  P.cuts.erase(std::unique(P.cuts.begin(), P.cuts.end()), P.cuts.end());
  return P;
}
void note_plan(const Plan& P, const char* who, size_t maxMsg)
{
  std::string l;
  for (auto& f : P.p.frames)
  {
    static const char* on[] = {"CONT", "TEXT", "BIN", "3", "4", "5", "6", "7", "CLOSE", "PING", "PONG"};
    l += std::string(" ") + (f.opcode <= 10 ? on[f.opcode] : "?") + (f.fin ? "" : "-") + "(" + std::to_string(f.payload.size()) + ")";
    if (l.size() > 600) { l += " ..."; break; }
  }
  sim::notef("%s receives %zu frames, %zu bytes, %zu cuts, max message %zu:%s%s%s", who, P.p.frames.size(), P.bytes.size(), P.cuts.size(), maxMsg, l.c_str(), P.hostile ? " then HOSTILE: " : "",
             P.hostile ? P.hostileWhat.c_str() : "");
}
struct Got { bool text; std::string payload; };
// judges what the endpoint delivered and what it wrote
void judge(const char* who, const Plan& P, const std::vector<Got>& got, const std::string& wire, bool wireMasked, bool endpointCloses)
{
  // (1) complete messages, in order; an invalid-UTF-8 text message is never delivered
  size_t expectUpTo = P.p.msgs.size();
  for (size_t i = 0; i < P.p.msgs.size(); i++) if (!P.p.msgs[i].validUtf8) { expectUpTo = i; break; }
  for (size_t i = 0; i < got.size(); i++)
  {
    // whatever an endpoint makes of the bytes behind a hostile header is its own business (as long as it neither throws nor hoards)
    if (P.hostile && i >= expectUpTo) break;
    if (i >= P.p.msgs.size()) sim::fail("c18-extra-message", "%s delivered %zu messages, only %zu were sent", who, got.size(), P.p.msgs.size());
    const wsg::Msg& m = P.p.msgs[i];
    if (!m.validUtf8 && got[i].text && got[i].payload == m.payload) sim::fail("c18-invalid-utf8-delivered", "%s delivered a text message that is not valid UTF-8 (%s)", who, hx::hex(m.payload).c_str());
    if (!m.validUtf8) break; // (what follows an invalid message is not specified)
    if (got[i].text != m.text || got[i].payload != m.payload)
    {
      size_t d = 0;
      while (d < got[i].payload.size() && d < m.payload.size() && got[i].payload[d] == m.payload[d]) d++;
      sim::fail("c18-wrong-message", "%s: message %zu delivered as %s of %zu bytes, sent as %s of %zu bytes (first difference at offset %zu)", who, i, got[i].text ? "text" : "binary", got[i].payload.size(),
                m.text ? "text" : "binary", m.payload.size(), d);
    }
  }
  if (got.size() < expectUpTo)
    sim::fail("c18-message-lost", "%s delivered %zu of the %zu complete messages sent before anything invalid (%zu cuts, first at %zu)", who, got.size(), expectUpTo, P.cuts.size(), P.cuts.empty() ? 0 : P.cuts[0]);
  // (2) what it wrote: well-formed frames; pongs match pings in order; no data frame after its close frame
  size_t pos = 0;
  std::vector<std::string> pongs;
  bool closeSeen = false;
  size_t frames = 0;
  while (pos < wire.size())
  {
    wsg::Frame f;
    int r = wsg::decode(wire, pos, f);
    if (r == 0) break; // (a frame cut short by the end of the connection is not this property's concern)
    if (r < 0) sim::fail("c18-malformed-output", "%s wrote bytes that are not a valid frame after %zu frames: %s", who, frames, hx::hex(wire.substr(pos, 16)).c_str());
    frames++;
    if (f.masked != wireMasked) sim::fail("c18-wrong-masking", "%s wrote a frame that is %s", who, f.masked ? "masked" : "not masked");
    if (closeSeen && (f.opcode == wsg::OP_TEXT || f.opcode == wsg::OP_BIN || f.opcode == wsg::OP_CONT))
      sim::fail("c18-data-after-close", "%s sent a %s frame ('%s') after it had sent its close frame", who, f.opcode == wsg::OP_TEXT ? "text" : f.opcode == wsg::OP_BIN ? "binary" : "continuation",
                f.payload.substr(0, 24).c_str());
    if (f.opcode == wsg::OP_CLOSE) closeSeen = true;
    if (f.opcode == wsg::OP_PONG) pongs.push_back(f.payload);
  }
  // every ping sent before anything invalid / hostile / a close is answered, in order, with its own payload
  for (size_t i = 0; i < pongs.size(); i++)
  {
    if (i >= P.p.pings.size()) { if (P.hostile) break; sim::fail("c18-extra-pong", "%s sent %zu pongs for %zu pings", who, pongs.size(), P.p.pings.size()); }
    if (pongs[i] != P.p.pings[i]) sim::fail("c18-wrong-pong", "%s: pong %zu carries %s, ping %zu carried %s", who, i, hx::hex(pongs[i]).c_str(), i, hx::hex(P.p.pings[i]).c_str());
  }
  // (behind a hostile tail, or when the endpoint's own close races the last pings, the last answers may never be written)
  bool allValid = expectUpTo == P.p.msgs.size() && !P.hostile && !endpointCloses && !P.p.endsWithClose; // (a close tears the connection down with answers still queued)
  if (allValid && pongs.size() < P.p.pings.size())
    sim::fail("c18-ping-unanswered", "%s answered %zu of %zu pings (%zu cuts)", who, pongs.size(), P.p.pings.size(), P.cuts.size());
}
} // namespace

extern "C" HarnessInfo harness_info() { return {"c18_ws", "C18", 40}; }

static void run_server_mode();
static void run_client_mode();

extern "C" void harness_run()
{
  iora::core::Logger::setLevel(iora::core::Logger::Level::Fatal);
  if (std::string(sim::mode()) == "client") run_client_mode();
  else run_server_mode();
}

static void begin_sim(uint64_t& gapNs)
{
  sim::net::NetConfig nc;
  static const uint64_t lats[] = {50000, 1000, 300000};
  nc.latency_ns = lats[sim::draw(3)];
  nc.jitter_ns = sim::draw(2) ? nc.latency_ns / 2 : 0;
  static const unsigned sr[] = {0, 0, 200};
  nc.short_read_permille = sr[sim::draw(3)];
  gapNs = nc.latency_ns * 2 + 100000;
  hx::SchedOpts so;
  so.stall_max_ns = 2000000;
  sim::Config cfg = hx::draw_sched(so);
  cfg.max_steps = 10000000;
  sim::begin(cfg);
  sim::net::configure(nc);
}

// writes the plan's bytes in segments, draining what comes back in between; then the hostile tail and the flood
static bool send_plan(int fd, const Plan& P, uint64_t gapNs, std::string& in, bool& peerClosed)
{
  size_t from = 0;
  std::vector<size_t> cuts = P.cuts;
  cuts.push_back(P.bytes.size());
  for (size_t k : cuts)
  {
    if (k <= from) continue;
    if (!peer::write_all(fd, P.bytes.substr(from, k - from))) return false;
    from = k;
    if (k < P.bytes.size()) sim::sleep_ns(gapNs);
    for (;;) { size_t b = in.size(); int rr = peer::read_some(fd, in, 65536, 1000); if (rr == 0 || rr == -1) { peerClosed = true; break; } if (in.size() == b) break; }
    if (peerClosed) return false;
  }
  return true;
}
// after a hostile header: keep sending until the endpoint closes the connection or `floodBytes` went through
extern "C" size_t __sanitizer_get_current_allocated_bytes() __attribute__((weak));
static size_t g_heapGrowth = 0;
static bool flood(int fd, const Plan& P, std::string& in, size_t& accepted)
{
  size_t heap0 = __sanitizer_get_current_allocated_bytes ? __sanitizer_get_current_allocated_bytes() : 0;
  struct Census { size_t h0; ~Census() { size_t h1 = __sanitizer_get_current_allocated_bytes ? __sanitizer_get_current_allocated_bytes() : 0; g_heapGrowth = h1 > h0 ? h1 - h0 : 0; } } census{heap0};
  if (!peer::write_all(fd, P.hostileBytes)) return true;
  std::string block(32768, 'F');
  accepted = 0;
  peer::set_sndtimeo(fd, 3000000000ull);
  while (accepted < P.floodBytes)
  {
    if (!peer::write_all(fd, block)) return true; // closed / reset / no longer reading: it gave up on the connection
    accepted += block.size();
    for (;;) { size_t b = in.size(); int rr = peer::read_some(fd, in, 65536, 1000); if (rr == 0 || rr == -1) return true; if (in.size() == b) break; }
  }
  return false;
}

// =====================================================================================================================
static void run_server_mode()
{
  bool th = hx::thorough();
  static const size_t maxes[] = {1000, 70000, 200000};
  size_t maxMsg = maxes[sim::draw(3)];
  Plan P = make_plan(true, maxMsg, th);
  int nApp = (int)sim::draw(3);            // application threads that keep sending text messages
  unsigned appGapUs = 50 + (unsigned)sim::draw(3000);
  bool serverCloses = !P.p.endsWithClose && !P.hostile && sim::draw(2);
  unsigned closeAfterUs = (unsigned)sim::draw(20000);
  bool framesWithUpgrade = false; // (RFC 6455 4.1: a client must wait for the 101 before it sends frames - not a valid stream, not generated)
  (void)sim::draw(3);
  note_plan(P, "server", maxMsg);
  sim::notef("app senders=%d every %u us, server-initiated close=%d after %u us, frames in the upgrade segment=%d", nApp, appGapUs, serverCloses, closeAfterUs, framesWithUpgrade);
  uint64_t gapNs;
  begin_sim(gapNs);

  std::mutex mx;
  std::condition_variable cv;
  std::vector<Got> got;
  SessionId sid = 0;
  bool closedCb = false;
  WebSocketServer* srv = new WebSocketServer("127.0.0.1", 8090);
  srv->setMaxFrameSize(maxMsg);
  srv->setOnConnect([&](SessionId s, const std::string&) { std::lock_guard<std::mutex> g(mx); if (!sid) sid = s; cv.notify_all(); });
  srv->setOnTextMessage([&](SessionId s, const std::string& t) { std::lock_guard<std::mutex> g(mx); if (s == sid) got.push_back({true, t}); });
  srv->setOnBinaryMessage([&](SessionId s, const std::vector<std::uint8_t>& d) { std::lock_guard<std::mutex> g(mx); if (s == sid) got.push_back({false, std::string(d.begin(), d.end())}); });
  srv->setOnClose([&](SessionId s, std::uint16_t, const std::string&) { std::lock_guard<std::mutex> g(mx); if (s == sid) closedCb = true; });
  srv->start();

  std::atomic<bool> stopApp{false};
  std::vector<std::thread> apps;
  std::string in; // everything the server wrote after the 101 response
  bool peerClosed = false;
  size_t accepted = 0;
  bool gaveUp = true;
  {
    int fd = peer::connect_to("127.0.0.1", 8090, 2000000000ull);
    if (fd < 0) sim::fail("harness", "connect failed");
    peer::set_sndtimeo(fd, 5000000000ull);
    std::string up = "GET /ws HTTP/1.1\r\nHost: verif.example\r\nUpgrade: websocket\r\nConnection: Upgrade\r\nSec-WebSocket-Key: dGhlIHNhbXBsZSBub25jZQ==\r\nSec-WebSocket-Version: 13\r\n\r\n";
    Plan Q = P;
    if (framesWithUpgrade)
    {
      // everything up to the first cut (or all of it) goes out together with the upgrade request
      size_t k = Q.cuts.empty() ? Q.bytes.size() : Q.cuts[0];
      up += Q.bytes.substr(0, k);
      Q.bytes.erase(0, k);
      std::vector<size_t> nc;
      for (size_t c : Q.cuts) if (c > k) nc.push_back(c - k);
      Q.cuts = nc;
    }
    peer::write_all(fd, up);
    std::string hdr;
    uint64_t t0 = sim::now();
    while (hdr.find("\r\n\r\n") == std::string::npos && sim::now() - t0 < 5000000000ull) { int rr = peer::read_some(fd, hdr, 4096, 100000000ull); if (rr == 0 || rr == -1) break; }
    size_t he = hdr.find("\r\n\r\n");
    if (he == std::string::npos || hdr.compare(0, 12, "HTTP/1.1 101") != 0) sim::fail("c18-handshake", "server did not answer the upgrade request with 101 (got '%s')", hdr.substr(0, 40).c_str());
    if (hdr.find("s3pPLMBiTxaQ9kYGzzhZRbK+xOo=") == std::string::npos) sim::fail("c18-handshake", "Sec-WebSocket-Accept is not the RFC 6455 value for the key sent");
    in = hdr.substr(he + 4);
    SessionId s = 0;
    {
      std::unique_lock<std::mutex> lk(mx);
      cv.wait_for(lk, std::chrono::seconds(2), [&] { return sid != 0; });
      s = sid;
    }
    for (int a = 0; a < nApp && s; a++)
      apps.emplace_back([&, a, s]
      {
        sim::name_thread("app");
        for (int i = 0; i < 400 && !stopApp.load(); i++)
        {
          if (a % 2) srv->sendText(s, "app-" + std::to_string(a) + "-" + std::to_string(i));
          else { std::string b = "bin-" + std::to_string(i); if (i < 5) b.resize(appSizes[i], 'b'); srv->sendBinary(s, std::vector<std::uint8_t>(b.begin(), b.end())); }
          sim::sleep_ns((uint64_t)appGapUs * 1000ull);
        }
      });
    bool ok = send_plan(fd, Q, gapNs, in, peerClosed);
    if (ok && P.hostile) gaveUp = flood(fd, P, in, accepted);
    if (ok && serverCloses && s)
    {
      sim::sleep_ns((uint64_t)closeAfterUs * 1000ull);
      srv->sendClose(s, 1001, "going away");
    }
    // read until the server closes; answer its close frame
    bool echoed = P.p.endsWithClose;
    uint64_t t1 = sim::now();
    while (!peerClosed && sim::now() - t1 < (P.hostile ? 3000000000ull : 6000000000ull))
    {
      int rr = peer::read_some(fd, in, 65536, 200000000ull);
      if (rr == 0 || rr == -1) { peerClosed = true; break; }
      if (!echoed && !P.hostile)
      {
        size_t pos = 0;
        wsg::Frame f;
        bool closeSeen = false;
        while (wsg::decode(in, pos, f) == 1) if (f.opcode == wsg::OP_CLOSE) closeSeen = true;
        if (closeSeen) { wsg::Frame c; c.opcode = wsg::OP_CLOSE; c.masked = true; c.payload = std::string("\x03\xe9", 2); peer::write_all(fd, wsg::encode(c)); echoed = true; }
      }
      if (!serverCloses && !P.p.endsWithClose && !P.hostile && sim::now() - t1 > 300000000ull) break; // nobody closes: enough
    }
    stopApp.store(true);
    for (auto& t : apps) t.join();
    ::close(fd);
  }
  sim::sleep_ns(3000000);
  {
    std::lock_guard<std::mutex> g(mx);
    if (P.hostile && g_heapGrowth > P.floodBytes / 4 * 3)
      sim::fail("c18-unbounded-buffer", "after %s the server buffered what followed: %zu further bytes were sent, the heap grew by %zu bytes (configured maximum message size %zu)%s", P.hostileWhat.c_str(), accepted,
                g_heapGrowth, maxMsg, gaveUp ? "" : "; the connection is still open");
    judge("server", P, got, in, false, serverCloses);
    if ((P.p.endsWithClose || serverCloses) && !peerClosed) sim::fail("c18-not-closed", "the close handshake completed but the server did not close the connection within 6 s");
  }
  // ---- afterwards: still alive
  {
    int fd = peer::connect_to("127.0.0.1", 8090, 2000000000ull);
    if (fd < 0) sim::fail("c18-server-dead", "the server no longer accepts connections");
    peer::write_all(fd, "GET /ws HTTP/1.1\r\nHost: verif.example\r\nUpgrade: websocket\r\nConnection: Upgrade\r\nSec-WebSocket-Key: dGhlIHNhbXBsZSBub25jZQ==\r\nSec-WebSocket-Version: 13\r\n\r\n");
    std::string hdr;
    uint64_t t0 = sim::now();
    while (hdr.find("\r\n\r\n") == std::string::npos && sim::now() - t0 < 5000000000ull) { int rr = peer::read_some(fd, hdr, 4096, 100000000ull); if (rr == 0 || rr == -1) break; }
    ::close(fd);
    if (hdr.compare(0, 12, "HTTP/1.1 101") != 0) sim::fail("c18-server-dead", "a fresh upgrade request was not answered after the stream");
  }
  srv->stop();
  delete srv;
  sim::count("c18.messages_delivered", got.size());
  sim::count("c18.frames_sent", P.p.frames.size());
  if (P.hostile) { sim::count("c18.hostile_streams", 1); std::string cn = "c18.hostile." + P.hostileWhat; sim::count(cn.c_str(), 1); }
  sim::state_mix(got.size() * 131 + P.p.frames.size() * 7 + (uint64_t)P.hostile);
  sim::finish_ok();
}

// =====================================================================================================================
static void run_client_mode()
{
  bool th = hx::thorough();
  static const size_t maxes[] = {1000, 70000, 200000};
  size_t maxMsg = maxes[sim::draw(3)];
  Plan P = make_plan(false, maxMsg, th);
  int nApp = (int)sim::draw(3);
  unsigned appGapUs = 50 + (unsigned)sim::draw(3000);
  bool clientCloses = !P.p.endsWithClose && !P.hostile && sim::draw(2);
  unsigned closeAfterUs = (unsigned)sim::draw(20000);
  bool framesWithResponse = sim::draw(3) == 0;
  note_plan(P, "client", maxMsg);
  sim::notef("app senders=%d every %u us, client-initiated close=%d after %u us, frames in the 101 segment=%d", nApp, appGapUs, clientCloses, closeAfterUs, framesWithResponse);
  uint64_t gapNs;
  begin_sim(gapNs);

  int lfd = peer::listen_on("10.0.0.2", 8090);
  if (lfd < 0) sim::fail("harness", "listen failed");
  std::mutex mx;
  std::vector<Got> got;
  std::string in; // what the client wrote after its upgrade request
  std::atomic<bool> peerDone{false}, sendingDone{false};
  bool peerClosed = false, gaveUp = true;
  size_t accepted = 0;
  std::atomic<bool> upgraded{false};
  std::thread server([&]
  {
    sim::name_thread("ws-peer");
    int fd = peer::accept_one(lfd, 5000000000ull);
    if (fd < 0) { peerDone = true; return; }
    peer::set_sndtimeo(fd, 5000000000ull);
    std::string req;
    uint64_t t0 = sim::now();
    while (req.find("\r\n\r\n") == std::string::npos && sim::now() - t0 < 5000000000ull) { int rr = peer::read_some(fd, req, 4096, 100000000ull); if (rr == 0 || rr == -1) break; }
    size_t he = req.find("\r\n\r\n");
    size_t kp = req.find("Sec-WebSocket-Key: ");
    if (he == std::string::npos || kp == std::string::npos) { ::close(fd); peerDone = true; return; }
    std::string key = req.substr(kp + 19, req.find("\r\n", kp) - kp - 19);
    in = req.substr(he + 4);
    std::string resp = "HTTP/1.1 101 Switching Protocols\r\nUpgrade: websocket\r\nConnection: Upgrade\r\nSec-WebSocket-Accept: " + wsg::accept_key(key) + "\r\n\r\n";
    Plan Q = P;
    if (framesWithResponse)
    {
      size_t k = Q.cuts.empty() ? Q.bytes.size() : Q.cuts[0];
      resp += Q.bytes.substr(0, k);
      Q.bytes.erase(0, k);
      std::vector<size_t> nc;
      for (size_t c : Q.cuts) if (c > k) nc.push_back(c - k);
      Q.cuts = nc;
    }
    peer::write_all(fd, resp);
    upgraded = true;
    bool ok = send_plan(fd, Q, gapNs, in, peerClosed);
    if (ok && P.hostile) gaveUp = flood(fd, P, in, accepted);
    sendingDone = true;
    bool echoed = P.p.endsWithClose;
    uint64_t t1 = sim::now();
    while (!peerClosed && sim::now() - t1 < (P.hostile ? 3000000000ull : 6000000000ull))
    {
      int rr = peer::read_some(fd, in, 65536, 200000000ull);
      if (rr == 0 || rr == -1) { peerClosed = true; break; }
      if (!echoed && !P.hostile)
      {
        size_t pos = 0;
        wsg::Frame f;
        bool closeSeen = false;
        while (wsg::decode(in, pos, f) == 1) if (f.opcode == wsg::OP_CLOSE) closeSeen = true;
        if (closeSeen) { wsg::Frame c; c.opcode = wsg::OP_CLOSE; c.payload = std::string("\x03\xe8", 2); peer::write_all(fd, wsg::encode(c)); echoed = true; sim::sleep_ns(20000000); break; }
      }
      if (!clientCloses && !P.p.endsWithClose && !P.hostile && sim::now() - t1 > 300000000ull) break;
    }
    // the server side of a close handshake closes the TCP connection first
    ::close(fd);
    peerDone = true;
  });

  {
    auto client = WebSocketClient::create();
    client->setOnTextMessage([&](const std::string& t) { std::lock_guard<std::mutex> g(mx); got.push_back({true, t}); });
    client->setOnBinaryMessage([&](const std::vector<std::uint8_t>& d) { std::lock_guard<std::mutex> g(mx); got.push_back({false, std::string(d.begin(), d.end())}); });
    WebSocketClient::Options opt;
    opt.autoReconnect = false;
    opt.pingInterval = std::chrono::seconds(3600);
    std::atomic<bool> upgradeSeen{false};
    std::string lastErr;
    client->setOnConnect([&](const std::string&) { upgradeSeen = true; });
    client->setOnError([&](const std::string& m) { std::lock_guard<std::mutex> g(mx); lastErr = m; });
    // (connect() may report false when the peer's whole session - frames and close - is over before it returns)
    (void)client->connect("10.0.0.2", 8090, "/ws", opt, std::chrono::milliseconds(5000));
    for (int i = 0; i < 2000 && !upgradeSeen.load(); i++) sim::sleep_ns(1000000); // the callback may trail the state change
    if (!upgradeSeen.load())
    {
      if (!upgraded.load()) sim::fail("harness", "the scripted peer never sent its 101 response (client error: %s)", lastErr.c_str());
      sim::fail("c18-handshake", "the client did not complete the upgrade although a correct 101 response was sent (its error callback said: '%s')", lastErr.c_str());
    }
    std::atomic<bool> stopApp{false};
    std::vector<std::thread> apps;
    for (int a = 0; a < nApp; a++)
      apps.emplace_back([&, a]
      {
        sim::name_thread("app");
        for (int i = 0; i < 400 && !stopApp.load(); i++)
        {
          if (a % 2) client->sendText("app-" + std::to_string(a) + "-" + std::to_string(i));
          else { std::string b = "bin-" + std::to_string(i); if (i < 5) b.resize(appSizes[i], 'b'); client->sendBinary(std::vector<std::uint8_t>(b.begin(), b.end())); }
          sim::sleep_ns((uint64_t)appGapUs * 1000ull);
        }
      });
    // wait for the peer to have sent everything, then (perhaps) close from this side while the application keeps sending
    for (int i = 0; i < 20000 && !sendingDone.load() && !peerDone.load(); i++) sim::sleep_ns(1000000);
    if (clientCloses)
    {
      sim::sleep_ns((uint64_t)closeAfterUs * 1000ull);
      client->sendClose(1000, "done");
    }
    for (int i = 0; i < 10000 && !peerDone.load(); i++) sim::sleep_ns(1000000);
    stopApp.store(true);
    for (auto& t : apps) t.join();
    client->disconnect();
  }
  server.join();
  ::close(lfd);
  {
    std::lock_guard<std::mutex> g(mx);
    if (P.hostile && g_heapGrowth > P.floodBytes / 4 * 3)
      sim::fail("c18-unbounded-buffer", "after %s the client buffered what followed: %zu further bytes were sent, the heap grew by %zu bytes%s", P.hostileWhat.c_str(), accepted, g_heapGrowth,
                gaveUp ? "" : "; the connection is still open");
    judge("client", P, got, in, true, clientCloses);
  }
  sim::count("c18.messages_delivered", got.size());
  sim::count("c18.frames_sent", P.p.frames.size());
  if (P.hostile) { sim::count("c18.hostile_streams", 1); std::string cn = "c18.hostile." + P.hostileWhat; sim::count(cn.c_str(), 1); }
  sim::state_mix(got.size() * 131 + P.p.frames.size() * 7 + (uint64_t)P.hostile);
  sim::finish_ok();
}
