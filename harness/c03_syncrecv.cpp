// C03: synchronous receive / read-mode switching of iora::network::Transport on the simulated kernel.
// The application-visible stream (receiveSync results merged with data-callback deliveries) must be the peer's stream:
// lossless and ordered without Disabled/overflow, drained before PeerClosed, ordered flush on Sync->Async, nothing while Disabled
// is stable, overflow = bytes buffered before it, then a sticky BufferOverflow - never bytes from beyond the dropped chunk.
#include "common.h"
#include "netpeer.h"
#include "iora/core/logger.hpp"
#include "iora/network/transport.hpp"
#include "iora/network/transport_impl.hpp"

#include <atomic>
#include <condition_variable>
#include <map>
#include <mutex>
#include <thread>
#include <vector>

using namespace iora::network;

namespace
{
struct VisEv { uint64_t start, end; std::string bytes; bool sync; int thr; };
struct ModeEv { hx::Span sp; ReadMode mode; bool ok; };
struct RecvRes { hx::Span sp; bool ok; int code; size_t n; };
struct World
{
  std::shared_ptr<Transport> tr;
  std::mutex mx;
  std::condition_variable cv;
  uint64_t sid = 0;
  bool announced = false;
  uint64_t close_st = 0;
  int close_code = -1;
  std::vector<VisEv> vis;
  std::vector<ModeEv> modes;
  std::vector<RecvRes> recvs;
  std::string peer_stream;
  size_t peer_tx = 0;
  bool peer_done = false, peer_fin = false, peer_rst = false;
  std::atomic<bool> stop_peer{false};
  int ioThread = -1;
};
World* W;
enum OpK { RECV, MODE_SYNC, MODE_ASYNC, MODE_DISABLED, SLEEP };
struct Op { int k; uint32_t buflen; uint32_t timeout_ms; uint32_t gap_us; };

// Can the visible events be ordered (respecting "a ends before b starts => a before b") so that their concatenation equals
// stream[0..) with at most `maxGaps` forward jumps? Returns the number of bytes matched; sets `gaps`.
struct Aligner
{
  const std::string& stream;
  std::vector<VisEv>& ev;
  bool structured = false; // stream[i] == i % 251
  Aligner(const std::string& s, std::vector<VisEv>& e) : stream(s), ev(e) {}
  // Order the deliveries (earliest end first; among deliveries that overlap in time prefer the one that continues the stream),
  // then align the concatenation with the peer's stream byte by byte, counting forward jumps (gaps).
  bool run(size_t& pos, int& gaps, int maxGaps, std::string& why)
  {
    std::vector<size_t> order(ev.size());
    for (size_t i = 0; i < ev.size(); i++) order[i] = i;
    std::sort(order.begin(), order.end(), [&](size_t a, size_t b) { return ev[a].end < ev[b].end; });
    std::vector<bool> used(ev.size(), false);
    pos = 0;
    gaps = 0;
    size_t seen = 0;
    for (size_t done = 0; done < ev.size(); done++)
    {
      uint64_t minEnd = UINT64_MAX;
      for (size_t i : order) if (!used[i]) minEnd = std::min(minEnd, ev[i].end);
      int pick = -1, first = -1;
      for (size_t i : order)
      {
        if (used[i] || ev[i].start > minEnd) continue;
        if (first < 0) first = (int)i;
        const std::string& b = ev[i].bytes;
        size_t k = std::min<size_t>(b.size(), 8);
        if (k == 0) { pick = (int)i; break; }
        if (pos + k <= stream.size() && stream.compare(pos, k, b, 0, k) == 0) { pick = (int)i; break; }
      }
      if (pick < 0) pick = first;
      used[pick] = true;
      const std::string& b = ev[pick].bytes;
      size_t off = 0;
      while (off < b.size())
      {
        // longest run that continues the stream
        size_t run = 0;
        while (off + run < b.size() && pos + run < stream.size() && b[off + run] == stream[pos + run]) run++;
        off += run;
        pos += run;
        seen += run;
        if (off == b.size()) break;
        // mismatch: do the next bytes (up to 8, completed from the following deliveries if this one is short) occur further on?
        std::string probe = b.substr(off, structured ? 1 : 8);
        if (!structured) for (size_t j : order) { if (probe.size() >= 8) break; if (!used[j]) probe += ev[j].bytes.substr(0, 8 - probe.size()); }
        size_t at = probe.empty() ? std::string::npos : stream.find(probe, pos);
        char buf[300];
        if (at == std::string::npos)
        {
          snprintf(buf, sizeof buf, "after %zu in-order bytes a %s delivery continues with bytes (%s) that do not occur later in the peer's stream (corrupt, duplicated or reordered)", seen,
                   ev[pick].sync ? "receiveSync" : "data-callback", hx::hex(b.substr(off), 12).c_str());
          why = buf;
          return false;
        }
        gaps++;
        if (gaps > maxGaps)
        {
          snprintf(buf, sizeof buf, "after %zu in-order bytes a %s delivery skips %zu bytes of the peer's stream (offset %zu -> %zu)", seen, ev[pick].sync ? "receiveSync" : "data-callback",
                   at - pos, pos, at);
          why = buf;
          return false;
        }
        pos = at;
      }
    }
    return true;
  }
};
} // namespace

extern "C" HarnessInfo harness_info() { return {"c03_syncrecv", "C03", 30}; }

extern "C" void harness_run()
{
  iora::core::Logger::setLevel(iora::core::Logger::Level::Fatal);
  World w;
  W = &w;
  bool th = hx::thorough();
  // ---- plan
  sim::net::NetConfig nc;
  static const size_t bufs[] = {65536, 16, 300, 4096};
  nc.sndbuf = bufs[sim::draw(4)];
  nc.rcvbuf = bufs[sim::draw(4)];
  static const size_t msss[] = {1460, 1, 7, 100, 65536};
  nc.mss = msss[sim::draw(5)];
  nc.latency_ns = sim::draw(2) ? 20000 : 1500000;
  nc.jitter_ns = nc.latency_ns / 2;
  nc.short_read_permille = sim::draw(3) == 2 ? 300 : 0;
  TransportConfig tc;
  tc.useEdgeTriggered = sim::draw(2) == 0;
  tc.batching.enabled = sim::draw(4) == 3;
  static const size_t chunks[] = {65536, 1, 16, 500};
  tc.ioReadChunk = chunks[sim::draw(4)];
  int flavour = (int)sim::draw(8); // 0-4 pure/mixed sync+async, 5 with Disabled, 6-7 small maxSyncReceiveBuffer (overflow)
  bool useDisabled = flavour == 5;
  bool overflowRun = flavour >= 6;
  if (overflowRun) tc.maxSyncReceiveBuffer = 32u << sim::draw(4); // 32..256
  size_t total = 1 + sim::draw(th ? 40000 : 9000);
  if (nc.mss <= 7 || tc.ioReadChunk <= 16 || nc.rcvbuf <= 16) total = 1 + total % (th ? 3000 : 1200);
  w.peer_stream = hx::keyed_bytes(0xC03, total);
  // with Disabled, bytes may legitimately be missing: use a stream in which a single byte identifies its offset modulo 251, so
  // that every delivery - even a 1-byte one - can be located and the minimal-gap alignment is unambiguous
  if (useDisabled) for (size_t i = 0; i < total; i++) w.peer_stream[i] = (char)(i % 251);
  int peerEnd = (int)sim::draw(4); // 0 FIN after writing, 1 RST after writing + delay, 2 hold (iora closes), 3 FIN, then linger
  bool iora_server = sim::draw(2) == 0;
  std::vector<uint32_t> pchunk(16), ppause(16);
  for (int i = 0; i < 16; i++)
  {
    static const uint32_t cs[] = {1, 5, 64, 700, 4000, 30000};
    pchunk[i] = cs[sim::draw(6)];
    static const uint32_t ps[] = {0, 0, 100, 2000, 30000};
    ppause[i] = ps[sim::draw(5)];
  }
  uint32_t peerStartDelay = (uint32_t)sim::draw(3000);
  int nops = 6 + (int)sim::draw(th ? 60 : 30);
  std::vector<Op> plan;
  // (A second application thread switching modes concurrently was generated here at first. The property quantifies over the I/O
  // thread against ONE application thread; two overlapping setReadMode() calls flush the sync buffer from two threads at once and
  // their callbacks interleave - outside the property, so no longer generated. The draw is kept so that plans stay comparable.)
  bool two = false;
  (void)sim::draw(5);
  std::vector<Op> plan2;
  for (int i = 0; i < nops; i++)
  {
    Op o{};
    uint64_t k = sim::draw(10);
    if (k <= 5) o.k = RECV;
    else if (k == 6) o.k = overflowRun ? RECV : MODE_ASYNC;
    else if (k == 7) o.k = MODE_SYNC;
    else if (k == 8) o.k = useDisabled ? MODE_DISABLED : (overflowRun ? SLEEP : MODE_ASYNC);
    else o.k = SLEEP;
    static const uint32_t bl[] = {1, 2, 17, 256, 4096, 100000};
    o.buflen = bl[sim::draw(6)];
    static const uint32_t to[] = {0, 1, 5, 40, 300};
    o.timeout_ms = to[sim::draw(5)];
    static const uint32_t gaps[] = {0, 0, 20, 1000, 20000};
    o.gap_us = gaps[sim::draw(5)];
    if (o.k == SLEEP) o.gap_us = 100 + (uint32_t)sim::draw(30000);
    if (two && (o.k == MODE_ASYNC || o.k == MODE_SYNC) && sim::draw(2)) plan2.push_back(o);
    else plan.push_back(o);
  }
  bool startSync = sim::draw(3) != 0;
  sim::notef("role=%s total=%zuB peerEnd=%d ET=%d batch=%d chunk=%zu mss=%zu rcvbuf=%zu flavour=%s maxSyncBuf=%zu startSync=%d secondThread=%d", iora_server ? "iora-server" : "iora-client", total,
             peerEnd, tc.useEdgeTriggered, tc.batching.enabled, tc.ioReadChunk, nc.mss, nc.rcvbuf, overflowRun ? "overflow" : useDisabled ? "disabled" : "sync/async", tc.maxSyncReceiveBuffer,
             startSync, two);
  {
    std::string l = "app:";
    for (auto& o : plan)
    {
      char b[64];
      switch (o.k)
      {
      case RECV: snprintf(b, sizeof b, " recv(%u,%ums)", o.buflen, o.timeout_ms); break;
      case MODE_SYNC: snprintf(b, sizeof b, " Sync"); break;
      case MODE_ASYNC: snprintf(b, sizeof b, " Async"); break;
      case MODE_DISABLED: snprintf(b, sizeof b, " Disabled"); break;
      default: snprintf(b, sizeof b, " sleep"); break;
      }
      l += b;
    }
    sim::notef("%s", l.c_str());
  }
  hx::SchedOpts so;
  so.stall_max_ns = 4000000;
  sim::Config cfg = hx::draw_sched(so);
  cfg.max_steps = 5000000;
  sim::begin(cfg);
  sim::net::configure(nc);

  w.tr = Transport::tcp(tc);
  auto announce = [&](SessionId sid)
  {
    std::lock_guard<std::mutex> g(w.mx);
    if (w.sid == 0) w.sid = sid;
    if (sid == w.sid) { w.announced = true; w.cv.notify_all(); }
  };
  w.tr->onAccept([&](SessionId sid, const TransportAddress&) { announce(sid); });
  w.tr->onConnect([&](SessionId sid, const TransportAddress&) { announce(sid); });
  w.tr->onData([&](SessionId sid, iora::core::BufferView d, std::chrono::steady_clock::time_point)
  {
    uint64_t st = sim::stamp();
    std::lock_guard<std::mutex> g(w.mx);
    if (sid != w.sid) return;
    w.vis.push_back({st, st, std::string((const char*)d.data(), d.size()), false, sim::self()});
  });
  w.tr->onClose([&](SessionId sid, const TransportErrorInfo& e)
  {
    std::lock_guard<std::mutex> g(w.mx);
    if (w.sid && sid != w.sid) return;
    w.close_st = sim::stamp();
    w.close_code = (int)e.code;
    w.cv.notify_all();
  });
  if (w.tr->start().isErr()) sim::fail("harness", "start failed");
  int plfd = -1;
  if (iora_server) { if (w.tr->addListener("127.0.0.1", 5000, TlsMode::None).isErr()) sim::fail("harness", "addListener failed"); }
  else plfd = peer::listen_on("10.0.0.2", 6000);

  std::thread peerThr([&]
  {
    sim::name_thread("peer");
    int fd = -1;
    if (iora_server) { for (int a = 0; a < 50 && fd < 0; a++) { fd = peer::connect_to("127.0.0.1", 5000, 2000000000ull); if (fd < 0) sim::sleep_ns(1000000); } }
    else fd = peer::accept_one(plfd, 20000000000ull);
    if (fd < 0) { w.peer_done = true; return; }
    sim::sleep_ns((uint64_t)peerStartDelay * 1000ull);
    size_t ci = 0;
    while (w.peer_tx < w.peer_stream.size() && !w.stop_peer.load())
    {
      size_t n = std::min<size_t>(pchunk[ci % 16], w.peer_stream.size() - w.peer_tx);
      peer::set_sndtimeo(fd, 50000000ull);
      ssize_t k = ::send(fd, w.peer_stream.data() + w.peer_tx, n, MSG_NOSIGNAL);
      if (k < 0) { if (errno == EAGAIN) k = 0; else break; }
      w.peer_tx += (size_t)k;
      if (ppause[ci % 16]) sim::sleep_ns((uint64_t)ppause[ci % 16] * 1000ull);
      ci++;
    }
    if (w.peer_tx == w.peer_stream.size())
    {
      if (peerEnd == 0 || peerEnd == 3)
      {
        ::shutdown(fd, SHUT_WR);
        w.peer_fin = true;
        std::string tmp;
        for (int i = 0; i < 4000 && !w.stop_peer.load(); i++) { int r = peer::read_some(fd, tmp, 4096, 20000000); if (r == 0 || r == -1) break; }
      }
      else if (peerEnd == 1)
      {
        sim::sleep_ns(3000000);
        w.peer_rst = true;
        peer::rst_close(fd);
        fd = -1;
      }
      else
      {
        std::string tmp;
        for (int i = 0; i < 4000 && !w.stop_peer.load(); i++) { int r = peer::read_some(fd, tmp, 4096, 20000000); if (r == 0 || r == -1) break; }
      }
    }
    if (fd >= 0) ::close(fd);
    w.peer_done = true;
  });
  if (!iora_server)
  {
    auto cr = w.tr->connect("10.0.0.2", 6000, TlsMode::None);
    if (cr.isErr()) sim::fail("harness", "connect refused");
    std::lock_guard<std::mutex> g(w.mx);
    if (w.sid == 0) w.sid = cr.value();
  }
  {
    std::unique_lock<std::mutex> lk(w.mx);
    if (!w.cv.wait_for(lk, std::chrono::seconds(60), [&] { return w.announced || w.close_st; })) sim::fail("harness", "no announce");
  }
  auto set_mode = [&](ReadMode m)
  {
    ModeEv e;
    e.mode = m;
    e.sp.inv = sim::stamp();
    e.ok = w.tr->setReadMode(w.sid, m);
    e.sp.ret = sim::stamp();
    std::lock_guard<std::mutex> g(w.mx);
    w.modes.push_back(e);
  };
  std::atomic<bool> sawPeerClosed{false};
  std::atomic<bool> sawOverflow{false};
  auto do_recv = [&](uint32_t buflen, uint32_t timeout_ms, int thr)
  {
    std::string buf(buflen, '\0');
    size_t len = buflen;
    RecvRes r{};
    r.sp.inv = sim::stamp();
    auto res = w.tr->receiveSync(w.sid, &buf[0], len, std::chrono::milliseconds(timeout_ms));
    r.sp.ret = sim::stamp();
    r.ok = res.isOk();
    r.code = r.ok ? 0 : (int)res.error().code;
    r.n = r.ok ? res.value() : 0;
    if (r.ok && (len != r.n || r.n > buflen || r.n == 0)) sim::fail("c03-bad-length", "receiveSync returned ok with value %zu, len %zu, buffer %u", r.n, len, buflen);
    static const int allowed[] = {(int)TransportError::Timeout, (int)TransportError::PeerClosed, (int)TransportError::BufferOverflow, (int)TransportError::Cancelled,
                                  (int)TransportError::ShuttingDown};
    if (!r.ok)
    {
      bool okc = false;
      for (int a : allowed) if (a == r.code) okc = true;
      if (!okc) sim::fail("c03-bad-error", "receiveSync failed with undocumented code %d", r.code);
      if (r.code == (int)TransportError::PeerClosed) sawPeerClosed.store(true);
      if (r.code == (int)TransportError::BufferOverflow) sawOverflow.store(true);
    }
    std::lock_guard<std::mutex> g(w.mx);
    w.recvs.push_back(r);
    if (r.ok) w.vis.push_back({r.sp.inv, r.sp.ret, buf.substr(0, r.n), true, thr});
  };
  if (startSync) set_mode(ReadMode::Sync);
  std::thread second;
  if (two)
    second = std::thread([&]
    {
      sim::name_thread("switcher");
      for (auto& o : plan2)
      {
        if (o.gap_us) sim::sleep_ns((uint64_t)o.gap_us * 1000ull * 3);
        set_mode(o.k == MODE_SYNC ? ReadMode::Sync : ReadMode::Async);
      }
    });
  sim::name_thread("app");
  for (auto& o : plan)
  {
    switch (o.k)
    {
    case RECV: do_recv(o.buflen, o.timeout_ms, 0); break;
    case MODE_SYNC: set_mode(ReadMode::Sync); break;
    case MODE_ASYNC: set_mode(ReadMode::Async); break;
    case MODE_DISABLED: set_mode(ReadMode::Disabled); break;
    default: break;
    }
    if (o.gap_us) sim::sleep_ns((uint64_t)o.gap_us * 1000ull);
  }
  if (second.joinable()) second.join();
  // ---- quiet tail: drain everything that is still to come, in Sync mode, until EOF/overflow/timeouts
  sim::Config q = cfg;
  q.stall_ppm = 0;
  q.create_stall_permille = 0;
  sim::reconfigure(q);
  if (!useDisabled || true)
  {
    if (!overflowRun) set_mode(ReadMode::Sync);
    int idle = 0;
    for (int i = 0; i < 100000 && idle < 6; i++)
    {
      size_t before = w.recvs.size();
      do_recv(4096, 400, 0);
      RecvRes& r = w.recvs[before];
      if (r.ok) idle = 0;
      else if (r.code == (int)TransportError::PeerClosed || r.code == (int)TransportError::BufferOverflow) break;
      else idle++;
    }
    // late receives after the end: the same terminal answer again
    if (sawPeerClosed.load() || sawOverflow.load())
    {
      do_recv(64, 5, 0);
      do_recv(64, 0, 0);
    }
    if (!overflowRun) set_mode(ReadMode::Async); // flush whatever is left through the callback
  }
  w.tr->close(w.sid);
  {
    std::unique_lock<std::mutex> lk(w.mx);
    w.cv.wait_for(lk, std::chrono::seconds(30), [&] { return w.close_st != 0; });
  }
  w.tr->stop();
  w.stop_peer.store(true);
  peerThr.join();
  if (plfd >= 0) ::close(plfd);

  // ---- oracles
  // stable Disabled windows and what was delivered inside them
  int disabledWindows = 0;
  {
    std::vector<ModeEv> ms = w.modes;
    std::sort(ms.begin(), ms.end(), [](const ModeEv& a, const ModeEv& b) { return a.sp.inv < b.sp.inv; });
    for (size_t i = 0; i < ms.size(); i++)
    {
      if (ms[i].mode != ReadMode::Disabled || !ms[i].ok) continue;
      // another mode switch that overlaps this call (second thread) may take effect before or after it: no stable window then
      bool overlapped = false;
      for (size_t k = 0; k < ms.size(); k++) if (k != i && ms[k].sp.inv < ms[i].sp.ret && ms[k].sp.ret > ms[i].sp.inv) overlapped = true;
      if (overlapped) continue;
      disabledWindows++;
      uint64_t from = ms[i].sp.ret, to = UINT64_MAX;
      for (size_t k = 0; k < ms.size(); k++) if (k != i && ms[k].sp.inv > ms[i].sp.ret) to = std::min(to, ms[k].sp.inv);
      int inWindow = 0;
      for (auto& v : w.vis) if (!v.sync && v.start > from && v.start < to) inWindow++;
      // one delivery may have been decided (mode read) before Disabled took effect and invoked afterwards
      if (inWindow > 1) sim::fail("c03-disabled-delivers", "%d data callbacks were invoked while the session was stably in Disabled mode", inWindow);
    }
  }
  size_t pos = 0;
  int gaps = 0;
  std::string why;
  Aligner al(w.peer_stream, w.vis);
  al.structured = useDisabled;
  int maxGaps = useDisabled ? disabledWindows : (overflowRun ? 0 : 0);
  bool aligned = al.run(pos, gaps, maxGaps, why);
  size_t visBytes = 0;
  for (auto& v : w.vis) visBytes += v.bytes.size();
  if (!aligned)
  {
    if (overflowRun)
      sim::fail("c03-overflow-gap", "small sync buffer (%zu B): the reader obtained bytes from beyond a dropped chunk: %s", tc.maxSyncReceiveBuffer, why.c_str());
    if (sim::verbose())
    {
      // debugging aid: the deliveries around the first mismatch, in end order, and the mode switches
      std::vector<size_t> order(w.vis.size());
      for (size_t i = 0; i < order.size(); i++) order[i] = i;
      std::sort(order.begin(), order.end(), [&](size_t a, size_t b) { return w.vis[a].end < w.vis[b].end; });
      size_t acc = 0;
      for (size_t k = 0; k < order.size(); k++)
      {
        auto& v = w.vis[order[k]];
        if (acc + v.bytes.size() + 6 >= pos && acc <= pos + 6)
          sim::notef("delivery #%zu %s thr=%d stamps %llu..%llu %zu bytes (%s) cumulative offset %zu", k, v.sync ? "receiveSync" : "callback", v.thr, (unsigned long long)v.start, (unsigned long long)v.end,
                     v.bytes.size(), hx::hex(v.bytes, 6).c_str(), acc);
        acc += v.bytes.size();
      }
      for (auto& m : w.modes) sim::notef("mode %d ok=%d stamps %llu..%llu", (int)m.mode, m.ok, (unsigned long long)m.sp.inv, (unsigned long long)m.sp.ret);
      sim::notef("expected bytes at %zu: %s", pos, hx::hex(w.peer_stream.substr(pos, 6)).c_str());
    }
    sim::fail("c03-stream", "visible stream (%zu bytes in %zu deliveries) is not the peer's stream: %s", visBytes, w.vis.size(), why.c_str());
  }
  if (visBytes > w.peer_tx) sim::fail("c03-stream", "application saw %zu bytes but the peer wrote only %zu", visBytes, w.peer_tx);
  // completeness: graceful peer close, no Disabled, no overflow => everything, and PeerClosed only after everything
  bool lossless = !useDisabled && !overflowRun;
  if (lossless && w.peer_fin && w.peer_tx == w.peer_stream.size() && w.close_code == (int)TransportError::PeerClosed && visBytes != w.peer_stream.size())
    sim::fail("c03-lost-tail", "peer wrote %zu bytes and closed gracefully; the application obtained only %zu before/after PeerClosed", w.peer_stream.size(), visBytes);
  // PeerClosed from receiveSync only after all bytes that arrived before the close had been returned: no successful receive after it
  {
    uint64_t firstClosed = 0;
    for (auto& r : w.recvs) if (!r.ok && r.code == (int)TransportError::PeerClosed && !firstClosed) firstClosed = r.sp.ret;
    if (firstClosed)
      for (auto& r : w.recvs)
        if (r.ok && r.sp.inv > firstClosed) sim::fail("c03-data-after-eof", "receiveSync returned %zu bytes after an earlier call had already reported PeerClosed", r.n);
    // sticky overflow
    uint64_t firstOv = 0;
    for (auto& r : w.recvs) if (!r.ok && r.code == (int)TransportError::BufferOverflow && !firstOv) firstOv = r.sp.ret;
    if (firstOv)
      for (auto& r : w.recvs)
        if (r.sp.inv > firstOv && !(r.code == (int)TransportError::BufferOverflow && !r.ok))
          sim::fail("c03-overflow-not-sticky", "after BufferOverflow a later receiveSync returned %s (code %d, %zu bytes)", r.ok ? "data" : "another error", r.code, r.n);
  }
  // overflow runs: if less than everything was obtained although the peer closed gracefully, the reader must have been told
  if (overflowRun && w.peer_fin && visBytes < w.peer_stream.size() && !sawOverflow.load() && w.close_code == (int)TransportError::PeerClosed)
    sim::fail("c03-silent-loss", "bytes were dropped (got %zu of %zu) but no receiveSync ever reported BufferOverflow", visBytes, w.peer_stream.size());
  size_t syncBytes = 0;
  for (auto& v : w.vis) if (v.sync) syncBytes += v.bytes.size();
  sim::count("c03.visible_bytes", visBytes);
  sim::count("c03.sync_bytes", syncBytes);
  sim::count("c03.recv_calls", w.recvs.size());
  sim::count("c03.mode_switches", w.modes.size());
  sim::count("c03.overflow_seen", sawOverflow.load() ? 1 : 0);
  sim::count("c03.peerclosed_seen", sawPeerClosed.load() ? 1 : 0);
  sim::count("c03.gaps_disabled", (uint64_t)gaps);
  sim::state_mix(visBytes * 31 + syncBytes * 7 + (uint64_t)w.close_code * 1009 + (uint64_t)flavour);
  w.tr.reset();
  sim::finish_ok();
}
