// C10 (blocking queue part): iora::core::BlockingQueue under the deterministic scheduler.
// Oracles: exactly-once, per-producer FIFO in real-time order, capacity bound, close semantics,
// no caller blocked while its condition holds (deadlock detector).
#include "common.h"
#include "iora/core/blocking_queue.hpp"

#include <atomic>
#include <chrono>
#include <memory>
#include <thread>
#include <vector>

using iora::core::BlockingQueue;

namespace
{
struct Item { int prod = -1; int seq = -1; };
struct PutRec { int prod, seq; int kind; bool ok; hx::Span sp; };
struct GetRec { int cons; int kind; bool ok; Item it; hx::Span sp; };
struct SizeRec { size_t v; uint64_t stamp; };

struct World
{
  std::unique_ptr<BlockingQueue<Item>> q;
  size_t cap = 1;
  std::vector<std::vector<PutRec>> puts;   // per producer (written only by that producer)
  std::vector<std::vector<GetRec>> gets;   // per consumer
  std::vector<SizeRec> sizes;              // sampler only
  uint64_t close_inv = 0, close_ret = 0;
};
World* W;

std::string describe_deadlock()
{
  char b[128];
  // size() would lock the mutex; read through the public lock-free/flag API only
  snprintf(b, sizeof b, "bq closed=%d cap=%zu", W->q->isClosed() ? 1 : 0, W->cap);
  return b;
}
} // namespace

extern "C" HarnessInfo harness_info() { return {"c10_bq", "C10", 10}; }

extern "C" void harness_run()
{
  World w;
  W = &w;
  // ---- plan (all workload draws happen before any thread exists)
  w.cap = 1 + sim::draw(4);
  int np = 1 + (int)sim::draw(hx::thorough() ? 4 : 3);
  int nc = 1 + (int)sim::draw(hx::thorough() ? 4 : 3);
  int closeMode = (int)sim::draw(4); // 0: close after producers joined, 1-2: closer thread at drawn time, 3: close from a producer mid-way
  struct POp { int kind; unsigned to; };
  std::vector<std::vector<POp>> pplan(np);
  std::vector<std::vector<POp>> cplan(nc);
  int maxOps = hx::thorough() ? 12 : 7;
  for (int p = 0; p < np; p++)
  {
    int n = 1 + (int)sim::draw(maxOps);
    for (int i = 0; i < n; i++) pplan[p].push_back({(int)sim::draw(4), (unsigned)(1 + sim::draw(20))});
  }
  for (int c = 0; c < nc; c++)
  {
    int n = 2 + (int)sim::draw(6);
    for (int i = 0; i < n; i++) cplan[c].push_back({(int)sim::draw(3), (unsigned)(1 + sim::draw(20))}); // pattern repeated cyclically
  }
  uint64_t closeDelay = sim::draw(4) == 0 ? 0 : sim::draw(400000);
  bool sampler = sim::draw(2) == 1;
  // hand-off phase (second queue, after the main scenario): waiters block first, then exactly as many wake-ups as actions are owed
  struct HandOff { int side = 0; int waiters = 0; std::vector<int> waitKind; std::vector<int> actKind; int actors = 1; unsigned gapUs = 0; size_t cap = 1; } ho;
  ho.side = (int)sim::draw(3); // 0 none, 1 consumers blocked on an empty queue, 2 producers blocked on a full queue
  if (ho.side)
  {
    ho.waiters = 2 + (int)sim::draw(3);
    int k = 1 + (int)sim::draw((uint64_t)ho.waiters);
    for (int i = 0; i < ho.waiters; i++) ho.waitKind.push_back((int)sim::draw(3) == 2 ? 1 : 0); // 0 untimed, 1 timed (10 s: far beyond the quiet gap)
    for (int i = 0; i < k; i++) ho.actKind.push_back((int)sim::draw(ho.side == 1 ? 4 : 3));
    ho.actors = 1 + (int)sim::draw(2);
    ho.gapUs = sim::draw(3) == 2 ? (unsigned)sim::draw(300) : 0;
    ho.cap = (size_t)k + sim::draw(2);
  }
  sim::notef("cap=%zu producers=%d consumers=%d closeMode=%d closeDelay=%lluns sampler=%d", w.cap, np, nc, closeMode,
             (unsigned long long)closeDelay, sampler);
  for (int p = 0; p < np; p++)
  {
    std::string s = "producer " + std::to_string(p) + ":";
    for (auto& o : pplan[p]) s += o.kind == 0 ? " queue" : o.kind == 1 ? " queue(move)" : o.kind == 2 ? " tryQueue(" + std::to_string(o.to) + "ms)" : " tryQueue()";
    sim::notef("%s", s.c_str());
  }
  sim::Config cfg = hx::draw_sched();
  cfg.max_steps = 2000000;
  w.puts.resize(np);
  w.gets.resize(nc);
  w.q.reset(new BlockingQueue<Item>(w.cap));
  sim::begin(cfg);
  sim::set_deadlock_describer(describe_deadlock);

  std::atomic<int> producersLeft{np};
  std::atomic<bool> stopSampler{false};
  std::vector<std::thread> prods, cons;
  for (int p = 0; p < np; p++)
    prods.emplace_back([&, p]
    {
      char nm[16];
      snprintf(nm, sizeof nm, "prod%d", p);
      sim::name_thread(nm);
      int seq = 0;
      for (size_t i = 0; i < pplan[p].size(); i++)
      {
        POp o = pplan[p][i];
        Item it{p, seq};
        PutRec r{p, seq, o.kind, false, {}};
        r.sp.inv = sim::stamp();
        switch (o.kind)
        {
        case 0: r.ok = w.q->queue(it); break;
        case 1: r.ok = w.q->queue(Item{p, seq}); break;
        case 2: r.ok = w.q->tryQueue(it, std::chrono::milliseconds(o.to)); break;
        default: r.ok = w.q->tryQueue(it); break;
        }
        r.sp.ret = sim::stamp();
        if (r.ok) seq++;
        w.puts[p].push_back(r);
        if (closeMode == 3 && p == 0 && i == pplan[p].size() / 2)
        {
          w.close_inv = sim::stamp();
          w.q->close();
          w.close_ret = sim::stamp();
        }
      }
      producersLeft.fetch_sub(1);
    });
  for (int c = 0; c < nc; c++)
    cons.emplace_back([&, c]
    {
      char nm[16];
      snprintf(nm, sizeof nm, "cons%d", c);
      sim::name_thread(nm);
      size_t i = 0;
      int idle = 0;
      for (;;)
      {
        POp o = cplan[c][i++ % cplan[c].size()];
        GetRec r{c, o.kind, false, {}, {}};
        r.sp.inv = sim::stamp();
        switch (o.kind)
        {
        case 0: r.ok = w.q->dequeue(r.it); break;
        case 1: r.ok = w.q->dequeue(r.it, std::chrono::milliseconds(o.to)); break;
        default: r.ok = w.q->tryDequeue(r.it); break;
        }
        r.sp.ret = sim::stamp();
        w.gets[c].push_back(r);
        if (!r.ok)
        {
          if (o.kind == 0) break; // blocking dequeue fails only when closed and empty
          if (w.q->isClosed() && w.q->empty()) break;
          if (o.kind == 2) { std::this_thread::sleep_for(std::chrono::microseconds(200)); if (++idle > 20000) sim::fail("bq-no-progress", "a polling consumer saw nothing for 4 simulated seconds while the queue was open: %s | %s", describe_deadlock().c_str(), sim::threads_report().c_str()); }
        }
      }
    });
  std::thread closer, samp;
  if (closeMode == 1 || closeMode == 2)
    closer = std::thread([&]
    {
      sim::name_thread("closer");
      if (closeDelay) sim::sleep_ns(closeDelay);
      w.close_inv = sim::stamp();
      w.q->close();
      w.close_ret = sim::stamp();
    });
  if (sampler)
    samp = std::thread([&]
    {
      sim::name_thread("sampler");
      for (int n = 0; n < 300 && !stopSampler.load(); n++) // bounded, so a stuck run ends in the deadlock detector
      {
        size_t v = w.q->size();
        w.sizes.push_back({v, sim::stamp()});
        (void)w.q->full();
        std::this_thread::sleep_for(std::chrono::microseconds(50));
      }
    });
  for (auto& t : prods) t.join();
  if (closeMode == 0)
  {
    w.close_inv = sim::stamp();
    w.q->close();
    w.close_ret = sim::stamp();
  }
  if (closer.joinable()) closer.join();
  for (auto& t : cons) t.join();
  stopSampler.store(true);
  if (samp.joinable()) samp.join();
  // double close is idempotent
  w.q->close();
  // leftovers (none expected: consumers drain until closed-and-empty)
  std::vector<Item> left;
  {
    Item it;
    while (w.q->tryDequeue(it)) left.push_back(it);
  }

  // ---- oracles over the recorded history
  size_t accepted = 0, taken = 0;
  std::vector<std::vector<int>> seen(np);
  for (int p = 0; p < np; p++)
  {
    int acc = 0;
    for (auto& r : w.puts[p]) if (r.ok) acc++;
    seen[p].assign((size_t)acc, 0);
    accepted += (size_t)acc;
  }
  auto mark = [&](const Item& it, const char* where)
  {
    if (it.prod < 0 || it.prod >= np || it.seq < 0 || it.seq >= (int)seen[it.prod].size())
      sim::fail("bq-foreign-item", "%s returned item (%d,%d) that was never accepted", where, it.prod, it.seq);
    if (++seen[it.prod][it.seq] > 1) sim::fail("bq-duplicate", "item (%d,%d) taken twice", it.prod, it.seq);
    taken++;
  };
  for (int c = 0; c < nc; c++)
    for (auto& g : w.gets[c]) if (g.ok) mark(g.it, "dequeue");
  for (auto& it : left) mark(it, "final drain");
  if (taken != accepted)
  {
    for (int p = 0; p < np; p++)
      for (size_t s = 0; s < seen[p].size(); s++)
        if (!seen[p][s]) sim::fail("bq-lost", "accepted item (%d,%zu) never came out (accepted=%zu taken=%zu)", p, s, accepted, taken);
  }
  if (!left.empty()) sim::fail("bq-drain", "%zu items left after every consumer saw closed-and-empty", left.size());
  // per-producer FIFO in real-time order: deq(b) must not have returned before deq(a) was invoked when a precedes b
  {
    std::vector<std::vector<hx::Span>> span(np);
    for (int p = 0; p < np; p++) span[p].resize(seen[p].size());
    for (int c = 0; c < nc; c++)
      for (auto& g : w.gets[c]) if (g.ok) span[g.it.prod][g.it.seq] = g.sp;
    for (int p = 0; p < np; p++)
    {
      uint64_t maxInvSoFar = 0; // over earlier items
      for (size_t s = 0; s < span[p].size(); s++)
      {
        if (span[p][s].ret && span[p][s].ret < maxInvSoFar)
          sim::fail("bq-fifo", "producer %d: item %zu was returned (stamp %llu) before the dequeue of an earlier item was even invoked (stamp %llu)",
                    p, s, (unsigned long long)span[p][s].ret, (unsigned long long)maxInvSoFar);
        maxInvSoFar = std::max(maxInvSoFar, span[p][s].inv);
      }
    }
    // with one consumer the order at the consumer is the program order of each producer
    if (nc == 1)
    {
      std::vector<int> next(np, 0);
      for (auto& g : w.gets[0])
        if (g.ok)
        {
          if (g.it.seq != next[g.it.prod]) sim::fail("bq-fifo", "single consumer saw producer %d seq %d, expected %d", g.it.prod, g.it.seq, next[g.it.prod]);
          next[g.it.prod]++;
        }
    }
  }
  // capacity: (#puts returned) - (#successful gets invoked) never exceeds cap; size() samples too
  {
    struct E { uint64_t st; int d; };
    std::vector<E> ev;
    for (int p = 0; p < np; p++) for (auto& r : w.puts[p]) if (r.ok) ev.push_back({r.sp.ret, +1});
    for (int c = 0; c < nc; c++) for (auto& g : w.gets[c]) if (g.ok) ev.push_back({g.sp.inv, -1});
    std::sort(ev.begin(), ev.end(), [](const E& a, const E& b) { return a.st < b.st; });
    long occ = 0;
    for (auto& e : ev)
    {
      occ += e.d;
      if (occ > (long)w.cap) sim::fail("bq-capacity", "%ld items provably inside a queue of capacity %zu", occ, w.cap);
    }
    for (auto& s : w.sizes) if (s.v > w.cap) sim::fail("bq-capacity", "size() returned %zu > capacity %zu", s.v, w.cap);
  }
  // close semantics: a put invoked after close() returned must be refused
  if (w.close_ret)
    for (int p = 0; p < np; p++)
      for (auto& r : w.puts[p])
        if (r.ok && r.sp.inv > w.close_ret) sim::fail("bq-put-after-close", "producer %d item %d accepted although invoked after close() returned", r.prod, r.seq);
  // a failed blocking dequeue means closed-and-empty: it must not be invoked-and-returned entirely before close was invoked
  for (int c = 0; c < nc; c++)
    for (auto& g : w.gets[c])
      if (!g.ok && g.kind == 0 && (w.close_inv == 0 || g.sp.ret < w.close_inv))
        sim::fail("bq-spurious-closed", "blocking dequeue failed before close() was invoked");
  // a failed blocking queue() likewise
  for (int p = 0; p < np; p++)
    for (auto& r : w.puts[p])
      if (!r.ok && r.kind <= 1 && (w.close_inv == 0 || r.sp.ret < w.close_inv))
        sim::fail("bq-spurious-closed", "blocking queue() failed before close() was invoked");
  // ---- hand-off phase: "no caller stays blocked while its condition holds", decided at a quiescent point instead of through
  // the deadlock detector (which a later notify or close() would mask). Stalls are off, nothing but the woken waiters can run
  // during the quiet gap, so after it a blocked waiter next to a satisfied condition is a lost wake-up.
  if (ho.side)
  {
    sim::Config q = cfg;
    q.stall_ppm = 0;
    q.create_stall_permille = 0;
    sim::reconfigure(q);
    BlockingQueue<Item> q2(ho.cap);
    if (ho.side == 2) for (size_t i = 0; i < ho.cap; i++) q2.queue(Item{90, (int)i});
    std::vector<std::atomic<int>> done((size_t)ho.waiters); // 0 blocked, 1 returned true, 2 returned false
    for (auto& d : done) d.store(0);
    std::vector<std::thread> ws, as;
    for (int i = 0; i < ho.waiters; i++)
      ws.emplace_back([&, i]
      {
        char nm[16];
        snprintf(nm, sizeof nm, "waiter%d", i);
        sim::name_thread(nm);
        bool ok;
        Item it{91, i};
        if (ho.side == 1) ok = ho.waitKind[(size_t)i] ? q2.dequeue(it, std::chrono::seconds(10)) : q2.dequeue(it);
        else ok = ho.waitKind[(size_t)i] ? q2.tryQueue(it, std::chrono::seconds(10)) : q2.queue(it);
        done[(size_t)i].store(ok ? 1 : 2);
      });
    sim::sleep_ns(1000000); // every waiter is parked on its condition variable by now
    std::atomic<int> acted{0};
    for (int a = 0; a < ho.actors; a++)
      as.emplace_back([&, a]
      {
        sim::name_thread(a ? "actor1" : "actor0");
        for (size_t i = (size_t)a; i < ho.actKind.size(); i += (size_t)ho.actors)
        {
          bool ok;
          Item it{92, (int)i};
          if (ho.side == 1)
            switch (ho.actKind[i])
            {
            case 0: ok = q2.queue(it); break;
            case 1: ok = q2.queue(Item{92, (int)i}); break;
            case 2: ok = q2.tryQueue(it, std::chrono::milliseconds(5)); break;
            default: ok = q2.tryQueue(it); break;
            }
          else
            switch (ho.actKind[i])
            {
            case 0: ok = q2.dequeue(it); break;
            case 1: ok = q2.dequeue(it, std::chrono::milliseconds(5)); break;
            default: ok = q2.tryDequeue(it); break;
            }
          if (ok) acted.fetch_add(1);
          if (ho.gapUs) sim::sleep_ns((uint64_t)ho.gapUs * 1000ull);
        }
      });
    for (auto& t : as) t.join();
    sim::sleep_ns(100000000ull); // quiet gap: 100 simulated ms in which only woken waiters are runnable
    int blocked = 0, returned = 0;
    for (auto& d : done) { int v = d.load(); if (v == 0) blocked++; else returned++; if (v == 2) sim::fail("bq-handoff-failed", "a %s waiter returned false although the queue was open and its 10 s timeout was far away", ho.side == 1 ? "dequeue" : "queue"); }
    size_t sz = q2.size();
    if (ho.side == 1 && blocked > 0 && sz > 0)
      sim::fail("bq-blocked-with-item", "%d consumer(s) still blocked in dequeue() 100 simulated ms after the last put although %zu item(s) sit in the open queue (%d puts accepted, %d consumers returned) | %s",
                blocked, sz, acted.load(), returned, sim::threads_report().c_str());
    if (ho.side == 2 && blocked > 0 && sz < ho.cap)
      sim::fail("bq-blocked-with-space", "%d producer(s) still blocked in queue() 100 simulated ms after the last take although the open queue holds %zu of %zu (%d takes succeeded, %d producers returned) | %s",
                blocked, sz, ho.cap, acted.load(), returned, sim::threads_report().c_str());
    sim::count(ho.side == 1 ? "bq.handoff_consumers" : "bq.handoff_producers");
    q2.close();
    for (auto& t : ws) t.join();
  }
  sim::count("bq.accepted", accepted);
  sim::count("bq.refused", [&] { size_t n = 0; for (auto& v : w.puts) for (auto& r : v) if (!r.ok) n++; return n; }());
  sim::state_mix(accepted * 131 + w.cap * 7 + (uint64_t)np * 3 + (uint64_t)nc);
  w.q.reset();
  sim::finish_ok();
}
