// C08: TimerService / TimerServicePool / TimingWheel under the deterministic scheduler and simulated clock.
// Modes: "svc", "pool", "wheel".
// Oracles (exact, in simulated time): one-shot fires at most once and not before its deadline (wheel: one tick tolerance);
// k-th periodic firing not before k intervals; successful cancel/reschedule => old schedule's handler never starts afterwards;
// failed cancel on a running service => exactly one firing; never silently dropped while running; nothing runs or starts after
// stop()/drain() returned; scheduling after stop is refused.
#include "common.h"
#include "iora/core/logger.hpp"
#include "iora/core/timer.hpp"
#include "iora/core/timing_wheel.hpp"

#include <atomic>
#include <chrono>
#include <memory>
#include <mutex>
#include <thread>
#include <vector>

using namespace iora::core;
using std::chrono::milliseconds;
using std::chrono::nanoseconds;

namespace
{
struct Fire { uint64_t t_entry, st_entry, st_exit; };
struct CancelRec { bool ok; hx::Span sp; uint64_t t_ret; bool resched; uint64_t new_delay_ns; uint64_t t_inv; };
struct TimerRec
{
  int idx = 0;
  std::atomic<uint64_t> id{0}; // library id (0 = refused / not yet scheduled)
  bool periodic = false;
  uint64_t delay_ns = 0;
  hx::Span sched;
  uint64_t t_inv = 0, t_ret = 0;
  uint32_t handler_us = 0;
  int in_handler_action = 0; // 0 none, 1 cancel next timer, 2 schedule a follow-up
  std::mutex mx; // protects fires/cancels (harness-side, written from several simulated threads)
  std::vector<Fire> fires;
  std::vector<CancelRec> cancels;
  int svc = 0;
};
enum OpKind { O_SCHED, O_PERIODIC, O_CANCEL, O_RESCHED, O_SLEEP, O_BURST };
struct Op { int kind; int timer; uint64_t delay_ns; int target; uint64_t gap_ns; uint32_t handler_us; int action; };

struct World
{
  std::string mode;
  std::vector<std::unique_ptr<TimerService>> svcs;
  std::unique_ptr<TimingWheel> wheel;
  uint64_t tick_ns = 0;
  size_t tpw = 0, levels = 0;
  std::vector<std::unique_ptr<TimerRec>> timers;
  uint64_t term_inv_st = 0, term_ret_st = 0, term_inv_t = 0;
  std::atomic<bool> terminated{false};
  std::atomic<int> handlersOpen{0};
  std::atomic<int> openPerSvc[4] = {{0}, {0}, {0}, {0}};
  uint64_t drain_ret_st[4] = {0, 0, 0, 0}; // stamp at which a SUCCESSFUL drain() of service i returned
};
World* W;

void on_fire(TimerRec* r);

uint64_t do_schedule(TimerRec* r)
{
  World& w = *W;
  uint64_t id = 0;
  if (w.wheel)
    id = w.wheel->schedule(std::chrono::duration_cast<milliseconds>(nanoseconds(r->delay_ns)), [r] { on_fire(r); });
  else if (r->periodic)
    id = w.svcs[r->svc]->schedulePeriodic(nanoseconds(r->delay_ns), [r] { on_fire(r); });
  else
    id = w.svcs[r->svc]->scheduleAfter(nanoseconds(r->delay_ns), [r] { on_fire(r); });
  return id;
}
void schedule_timer(TimerRec* r)
{
  r->sched.inv = sim::stamp();
  r->t_inv = sim::now();
  uint64_t id = do_schedule(r);
  r->t_ret = sim::now();
  r->sched.ret = sim::stamp();
  r->id.store(id);
}
void cancel_timer(TimerRec* r, bool resched, uint64_t newDelay)
{
  World& w = *W;
  uint64_t id = r->id.load();
  if (!id) return;
  CancelRec c{};
  c.resched = resched;
  c.new_delay_ns = newDelay;
  c.sp.inv = sim::stamp();
  c.t_inv = sim::now();
  if (w.wheel) c.ok = resched ? w.wheel->reschedule(id, std::chrono::duration_cast<milliseconds>(nanoseconds(newDelay))) : w.wheel->cancel(id);
  else c.ok = w.svcs[r->svc]->cancel(id);
  c.t_ret = sim::now();
  c.sp.ret = sim::stamp();
  std::lock_guard<std::mutex> g(r->mx);
  r->cancels.push_back(c);
}
void on_fire(TimerRec* r)
{
  World& w = *W;
  Fire f{sim::now(), sim::stamp(), 0};
  w.handlersOpen.fetch_add(1);
  w.openPerSvc[r->svc & 3].fetch_add(1);
  if (w.terminated.load()) sim::fail("timer-after-stop", "handler of timer %d started after stop()/drain() had returned", r->idx);
  if (r->handler_us) std::this_thread::sleep_for(std::chrono::microseconds(r->handler_us));
  else sim::point(0xc08);
  if (r->in_handler_action == 1 && r->idx + 1 < (int)w.timers.size()) cancel_timer(w.timers[r->idx + 1].get(), false, 0);
  w.handlersOpen.fetch_sub(1);
  w.openPerSvc[r->svc & 3].fetch_sub(1);
  f.st_exit = sim::stamp();
  std::lock_guard<std::mutex> g(r->mx);
  r->fires.push_back(f);
}
} // namespace

extern "C" HarnessInfo harness_info() { return {"c08_timers", "C08", 10}; }

extern "C" void harness_run()
{
  Logger::setLevel(Logger::Level::Fatal);
  World w;
  W = &w;
  w.mode = sim::mode();
  if (w.mode.empty()) w.mode = "svc";
  bool wheel = w.mode == "wheel";
  bool th = hx::thorough();
  // ---- plan
  int nsvc = w.mode == "pool" ? 2 + (int)sim::draw(2) : 1;
  if (wheel)
  {
    static const uint64_t ticks[] = {10, 1, 5, 50};
    w.tick_ns = ticks[sim::draw(4)] * 1000000ull;
    w.tpw = 4u << sim::draw(3);       // 4, 8, 16
    w.levels = 2 + sim::draw(2);      // 2-3
  }
  int nact = 1 + (int)sim::draw(th ? 4 : 3);
  std::vector<std::vector<Op>> plan(nact);
  int ntimers = 0;
  uint64_t unit = wheel ? w.tick_ns : 1000000ull; // 1 ms for the service
  for (int a = 0; a < nact; a++)
  {
    int n = 2 + (int)sim::draw(th ? 12 : 7);
    for (int i = 0; i < n; i++)
    {
      Op o{};
      uint64_t k = sim::draw(10);
      if (k <= 4 || ntimers == 0) o.kind = O_SCHED;
      else if (k == 5) o.kind = wheel ? O_SCHED : O_PERIODIC;
      else if (k <= 7) o.kind = O_CANCEL;
      else if (k == 8) o.kind = wheel ? O_RESCHED : O_CANCEL;
      else o.kind = O_SLEEP;
      // delay patterns: zero, sub-unit, around bucket/level boundaries, several units
      auto draw_delay = [&]() -> uint64_t
      {
        uint64_t p = sim::draw(8);
        uint64_t tp = wheel ? w.tpw : 8;
        switch (p)
        {
        case 0: return 0;
        case 1: return unit / 2;
        case 2: return unit * (1 + sim::draw(3));
        case 3: return unit * tp - (sim::draw(2) ? unit / 2 : 0);
        case 4: return unit * tp + unit * sim::draw(3);
        case 5: return unit * tp * tp + unit * sim::draw(tp);
        case 6: return unit * (1 + sim::draw(2 * tp)) + unit / 3;
        default: return unit * (1 + sim::draw(4 * tp));
        }
      };
      o.delay_ns = draw_delay();
      if (o.kind == O_PERIODIC) o.delay_ns = unit * (1 + sim::draw(5));
      if (o.kind == O_SCHED && sim::draw(6) == 0)
      {
        // a burst: 3-6 one-shot timers with the same delay, scheduled back to back (they are collected as one batch)
        o.kind = O_BURST;
        o.target = 3 + (int)sim::draw(4);
        o.timer = ntimers;
        ntimers += o.target;
      }
      else
      if (o.kind == O_SCHED || o.kind == O_PERIODIC) o.timer = ntimers++;
      else o.target = (int)sim::draw(ntimers ? ntimers : 1);
      static const uint64_t gaps[] = {0, 0, 1, 3, 9};
      o.gap_ns = gaps[sim::draw(5)] * unit / 2;
      if (o.kind == O_SLEEP) o.gap_ns = unit * (1 + sim::draw(wheel ? 2 * w.tpw : 10));
      static const uint32_t hd[] = {0, 0, 0, 100, 2500};
      o.handler_us = hd[sim::draw(5)];
      o.action = sim::draw(8) == 7 ? 1 : 0;
      plan[a].push_back(o);
    }
  }
  int termMode = (int)sim::draw(4); // 0 stop after quiet tail, 1 stop racing actors, 2 drain(timeout) after tail, 3 drain racing
  uint64_t termDelay = sim::draw(40) * unit / 2;
  uint32_t drainTimeoutMs = sim::draw(2) ? 30000 : (uint32_t)(1 + sim::draw(50));
  for (int i = 0; i < ntimers; i++)
  {
    w.timers.emplace_back(new TimerRec());
    w.timers.back()->idx = i;
  }
  {
    int t = 0;
    for (int a = 0; a < nact; a++)
      for (auto& o : plan[a])
        if (o.kind == O_BURST)
        {
          for (int b = 0; b < o.target; b++)
          {
            TimerRec* r = w.timers[o.timer + b].get();
            r->periodic = false;
            r->delay_ns = wheel ? (o.delay_ns / 1000000ull) * 1000000ull : o.delay_ns;
            r->handler_us = o.handler_us ? o.handler_us : 100;
            r->in_handler_action = 0;
            r->svc = nsvc > 1 ? (t % nsvc) : 0;
          }
          t++;
        }
        else if (o.kind == O_SCHED || o.kind == O_PERIODIC)
        {
          TimerRec* r = w.timers[o.timer].get();
          r->periodic = o.kind == O_PERIODIC;
          r->delay_ns = wheel ? (o.delay_ns / 1000000ull) * 1000000ull : o.delay_ns; // the wheel API takes whole milliseconds
          r->handler_us = o.handler_us;
          r->in_handler_action = o.action;
          r->svc = nsvc > 1 ? (t % nsvc) : 0;
          t++;
        }
  }
  if (wheel) sim::notef("wheel tick=%llums slots=%zu levels=%zu actors=%d timers=%d termMode=%d", (unsigned long long)(w.tick_ns / 1000000), w.tpw, w.levels, nact, ntimers, termMode);
  else sim::notef("%s services=%d actors=%d timers=%d termMode=%d drainTimeout=%ums", w.mode.c_str(), nsvc, nact, ntimers, termMode, drainTimeoutMs);
  for (int a = 0; a < nact; a++)
  {
    std::string l = "actor " + std::to_string(a) + ":";
    for (auto& o : plan[a])
    {
      char b[96];
      switch (o.kind)
      {
      case O_SCHED: snprintf(b, sizeof b, " sched#%d(%.2fu)", o.timer, (double)o.delay_ns / unit); break;
      case O_BURST: snprintf(b, sizeof b, " burst#%d..%d(%.2fu)", o.timer, o.timer + o.target - 1, (double)o.delay_ns / unit); break;
      case O_PERIODIC: snprintf(b, sizeof b, " periodic#%d(%.2fu)", o.timer, (double)o.delay_ns / unit); break;
      case O_CANCEL: snprintf(b, sizeof b, " cancel#%d", o.target); break;
      case O_RESCHED: snprintf(b, sizeof b, " resched#%d(%.2fu)", o.target, (double)o.delay_ns / unit); break;
      default: snprintf(b, sizeof b, " sleep(%.1fu)", (double)o.gap_ns / unit); break;
      }
      l += b;
    }
    sim::notef("%s", l.c_str());
  }
  hx::SchedOpts so;
  so.stall_max_ns = wheel ? 6 * w.tick_ns : 20000000; // several ticks
  sim::Config cfg = hx::draw_sched(so);
  sim::begin(cfg);

  if (wheel)
  {
    w.wheel.reset(new TimingWheel(milliseconds(w.tick_ns / 1000000), w.tpw, w.levels));
    w.wheel->start();
  }
  else
    for (int i = 0; i < nsvc; i++) w.svcs.emplace_back(new TimerService());

  std::vector<std::thread> actors;
  for (int a = 0; a < nact; a++)
    actors.emplace_back([&, a]
    {
      char nm[16];
      snprintf(nm, sizeof nm, "actor%d", a);
      sim::name_thread(nm);
      for (auto& o : plan[a])
      {
        switch (o.kind)
        {
        case O_SCHED:
        case O_PERIODIC: schedule_timer(w.timers[o.timer].get()); break;
        case O_BURST: for (int b = 0; b < o.target; b++) schedule_timer(w.timers[o.timer + b].get()); break;
        case O_CANCEL: cancel_timer(w.timers[o.target].get(), false, 0); break;
        case O_RESCHED: cancel_timer(w.timers[o.target].get(), true, (o.delay_ns / 1000000ull) * 1000000ull); break;
        default: break;
        }
        if (o.gap_ns) sim::sleep_ns(o.gap_ns);
      }
    });
  auto terminate_all = [&](bool drainFirst)
  {
    w.term_inv_t = sim::now();
    w.term_inv_st = sim::stamp();
    if (w.wheel)
    {
      if (drainFirst)
      {
        auto ds = w.wheel->drain(milliseconds(drainTimeoutMs));
        if (ds.remaining == 0)
        {
          w.drain_ret_st[0] = sim::stamp();
          if (w.handlersOpen.load() != 0) sim::fail("timer-running-after-drain", "%d handler(s) still running when the wheel's drain() returned", w.handlersOpen.load());
        }
      }
      else w.wheel->stop();
    }
    else
    {
      for (size_t i = 0; i < w.svcs.size(); i++)
      {
        auto& s = w.svcs[i];
        if (drainFirst)
        {
          auto dr = s->drain(drainTimeoutMs);
          if (dr.success)
          {
            // "after drain returns no handler is running or starts later"
            w.drain_ret_st[i & 3] = sim::stamp();
            int open = w.openPerSvc[i & 3].load();
            if (open != 0) sim::fail("timer-running-after-drain", "%d handler(s) of the service still running when drain() returned success", open);
          }
        }
      }
      for (auto& s : w.svcs) s->stop();
    }
    w.term_ret_st = sim::stamp();
    if (w.handlersOpen.load() != 0) sim::fail("timer-running-after-stop", "%d handler(s) still running when stop()/drain() returned", w.handlersOpen.load());
    w.terminated.store(true);
  };
  std::thread term;
  if (termMode == 1 || termMode == 3)
    term = std::thread([&]
    {
      sim::name_thread("term");
      sim::sleep_ns(termDelay);
      terminate_all(termMode == 3);
    });
  for (auto& t : actors) t.join();
  if (term.joinable()) term.join();
  uint64_t quietFrom = sim::now();
  if (termMode == 0 || termMode == 2)
  {
    // quiet tail: no faults, wait beyond every deadline plus the admissible lateness, then terminate
    sim::Config q = cfg;
    q.stall_ppm = 0;
    sim::reconfigure(q);
    uint64_t until = sim::now();
    for (auto& r : w.timers)
    {
      if (!r->id.load()) continue;
      uint64_t d = r->delay_ns;
      {
        std::lock_guard<std::mutex> g(r->mx);
        for (auto& c : r->cancels) if (c.resched && c.ok) d = std::max(d, c.new_delay_ns + (c.t_inv - r->t_inv));
      }
      uint64_t slack = wheel ? d + 6 * w.tick_ns : 50000000ull;
      until = std::max(until, r->t_ret + d + slack);
    }
    // handlers run one after the other on the service's own thread: a burst of slow handlers holds every later timer back
    uint64_t handlerTime = 0;
    for (auto& r : w.timers) handlerTime += (uint64_t)r->handler_us * 1000ull * (r->periodic ? 4 : 1);
    until += handlerTime;
    if (until > sim::now()) sim::sleep_ns(until - sim::now() + (wheel ? 4 * w.tick_ns : 20000000ull));
    quietFrom = sim::now();
    terminate_all(termMode == 2);
  }
  // scheduling after stop is refused
  {
    TimerRec late;
    late.delay_ns = 0;
    late.idx = -1;
    uint64_t id = do_schedule(&late);
    if (id != 0) sim::fail("timer-accept-after-stop", "schedule on a stopped service returned id %llu", (unsigned long long)id);
  }
  sim::sleep_ns(wheel ? 3 * w.tick_ns : 30000000ull); // nothing may fire now
  w.wheel.reset();
  w.svcs.clear();

  // ---- history oracles
  uint64_t tol = wheel ? w.tick_ns : 0;
  size_t fired = 0, cancelledOk = 0;
  for (auto& rp : w.timers)
  {
    TimerRec& r = *rp;
    uint64_t id = r.id.load();
    if (!id)
    {
      if (!r.fires.empty()) sim::fail("timer-refused-fired", "timer %d was refused (id 0) but its handler ran", r.idx);
      // refusal only legitimate once termination had been invoked
      if (r.sched.inv && (w.term_inv_st == 0 || r.sched.ret < w.term_inv_st)) sim::fail("timer-refused", "timer %d refused although no stop/drain had been invoked", r.idx);
      continue;
    }
    fired += r.fires.size();
    std::sort(r.fires.begin(), r.fires.end(), [](const Fire& a, const Fire& b) { return a.st_entry < b.st_entry; });
    // effective schedule segments: original, then each successful reschedule
    struct Seg { uint64_t from_st; uint64_t deadline; uint64_t ret_st; };
    std::vector<Seg> segs{{r.sched.inv, r.t_inv + r.delay_ns, r.sched.ret}};
    uint64_t cancel_ok_ret = 0;
    bool cancelFailedWhileRunning = false;
    for (auto& c : r.cancels)
    {
      if (c.resched && c.ok) segs.push_back({c.sp.inv, c.t_inv + c.new_delay_ns, c.sp.ret});
      if (!c.resched && c.ok) { cancel_ok_ret = cancel_ok_ret ? std::min(cancel_ok_ret, c.sp.ret) : c.sp.ret; cancelledOk++; }
      if (!c.resched && !c.ok && (w.term_inv_st == 0 || c.sp.ret < w.term_inv_st) && c.sp.inv > r.sched.ret) cancelFailedWhileRunning = true;
    }
    if (!r.periodic && r.fires.size() > 1) sim::fail("timer-fired-twice", "one-shot timer %d fired %zu times", r.idx, r.fires.size());
    int k = 0;
    for (auto& f : r.fires)
    {
      k++;
      // the deadline that applies: the latest segment that began (was invoked) before this firing started. A reschedule that
      // overlaps the firing leaves both deadlines admissible, so take the earliest deadline among segments not provably superseded.
      uint64_t need = UINT64_MAX;
      for (size_t s = 0; s < segs.size(); s++)
      {
        bool superseded = false;
        // segment s is superseded if a successful reschedule that was invoked AFTER s had returned (two overlapping reschedules
        // may take effect in either order) itself RETURNED before this firing entered
        for (auto& c : r.cancels)
          if (c.resched && c.ok && c.sp.inv > segs[s].ret_st && c.sp.ret < f.st_entry) superseded = true;
        if (segs[s].from_st < f.st_entry && !superseded) need = std::min(need, segs[s].deadline);
      }
      if (need == UINT64_MAX) need = segs[0].deadline;
      if (r.periodic) need = r.t_inv + (uint64_t)k * r.delay_ns;
      if (f.t_entry + tol < need)
        sim::fail("timer-early", "%s timer %d (delay %.3f ms) firing %d started %.3f ms before its deadline (tolerance %.3f ms)", r.periodic ? "periodic" : "one-shot", r.idx,
                  r.delay_ns / 1e6, k, (need - f.t_entry) / 1e6, tol / 1e6);
      if (cancel_ok_ret && f.st_entry > cancel_ok_ret)
        sim::fail("timer-fired-after-cancel", "%s timer %d: handler started (stamp %llu) after cancel() had returned true (stamp %llu)", r.periodic ? "periodic" : "one-shot",
                  r.idx, (unsigned long long)f.st_entry, (unsigned long long)cancel_ok_ret);
      for (auto& c : r.cancels)
        if (c.resched && c.ok && f.st_entry > c.sp.ret && f.t_entry + tol < c.t_inv + c.new_delay_ns)
        {
          // a later successful reschedule may have shortened it again; only flag when no other admissible deadline explains it
          bool explained = false;
          for (auto& c2 : r.cancels) if (&c2 != &c && c2.resched && c2.ok && !(c2.sp.ret < c.sp.inv) /* not provably before c: overlapping calls take effect in either order */ && c2.sp.inv < f.st_entry && f.t_entry + tol >= c2.t_inv + c2.new_delay_ns) explained = true;
          if (!explained) sim::fail("timer-fired-after-reschedule", "timer %d: old schedule fired after reschedule() returned true", r.idx);
        }
      if (w.drain_ret_st[r.svc & 3] && f.st_entry > w.drain_ret_st[r.svc & 3])
        sim::fail("timer-after-drain", "timer %d handler started (stamp %llu) after drain() had returned success (stamp %llu)", r.idx, (unsigned long long)f.st_entry,
                  (unsigned long long)w.drain_ret_st[r.svc & 3]);
      if (w.term_ret_st && f.st_entry > w.term_ret_st) sim::fail("timer-after-stop", "timer %d handler started after stop()/drain() returned", r.idx);
      if (w.term_ret_st && f.st_entry < w.term_ret_st && f.st_exit > w.term_ret_st) sim::fail("timer-running-after-stop", "timer %d handler was running when stop()/drain() returned", r.idx);
    }
    if (!r.periodic)
    {
      // failed cancel while running => exactly one firing by the end
      if (cancelFailedWhileRunning && cancel_ok_ret == 0 && r.fires.size() != 1 && (termMode == 0 || termMode == 2))
        sim::fail("timer-cancel-false-not-fired", "timer %d: cancel() returned false on a running service but the handler ran %zu times", r.idx, r.fires.size());
      // never silently dropped: not cancelled, service kept running beyond deadline + slack (quiet tail modes)
      if ((termMode == 0 || termMode == 2) && cancel_ok_ret == 0 && r.fires.empty())
      {
        bool cancelledByHandler = false; (void)cancelledByHandler;
        sim::fail("timer-dropped", "timer %d (delay %.3f ms, scheduled at +%.3f ms) never fired although the service ran %.3f ms past its deadline", r.idx, r.delay_ns / 1e6,
                  (r.t_inv - 1000ull * 1000000000ull) / 1e6, (quietFrom > r.t_inv + r.delay_ns ? quietFrom - r.t_inv - r.delay_ns : 0) / 1e6);
      }
    }
    else if ((termMode == 0 || termMode == 2) && cancel_ok_ret == 0 && r.fires.empty())
      sim::fail("timer-dropped", "periodic timer %d never fired", r.idx);
  }
  sim::count("timers.scheduled", (uint64_t)ntimers);
  sim::count("timers.fired", fired);
  sim::count("timers.cancel_ok", cancelledOk);
  sim::state_mix(fired * 131 + cancelledOk * 17 + (uint64_t)termMode);
  sim::finish_ok();
}
