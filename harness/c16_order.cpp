// C16: each HTTP request gets exactly one well-formed response, in order.
// Raw clients send sequential and pipelined requests on 1-3 connections to a real HttpServer whose handlers take drawn amounts of
// simulated time, set content through the response API, or throw. Each connection's byte stream is split by an independent
// reference framer and matched against the requests sent.
#include "common.h"
#include "netpeer.h"
#include "httpgen.h"
#include "iora/core/logger.hpp"
#include "iora/network/http_server.hpp"

#include <atomic>
#include <mutex>
#include <thread>

using namespace iora::network;

namespace
{
enum Kind { K_OK, K_THROW, K_EMPTY, K_BIG, K_STATUS, K_ROUTE, K_ROUTE_405, K_OPTIONS, K_UNPARSABLE };
struct Req
{
  std::string token, method, wire;
  int kind = K_OK;
  unsigned ms = 0;       // handler duration
  bool close = false;    // Connection: close
  bool http10 = false;
  int expectStatus = 200;
  std::string unparsableWhat;
};
struct Conn
{
  std::vector<Req> reqs;
  std::vector<size_t> groupEnds; // requests [0,groupEnds[0]) are written in one go, then a gap, ...
  std::vector<unsigned> gapUs;
  std::string in;                // bytes read
  bool closedByServer = false;
  uint64_t lastSendNs = 0, closeSeenNs = 0;
};
} // namespace

extern "C" HarnessInfo harness_info() { return {"c16_order", "C16", 40}; }

extern "C" void harness_run()
{
  iora::core::Logger::setLevel(iora::core::Logger::Level::Fatal);
  bool th = hx::thorough();
  int nconn = 1 + (int)sim::draw(3);
  std::vector<Conn> conns((size_t)nconn);
  for (int ci = 0; ci < nconn; ci++)
  {
    Conn& c = conns[(size_t)ci];
    int n = 1 + (int)sim::draw(th ? 8 : 5);
    for (int i = 0; i < n; i++)
    {
      Req r;
      char tok[32];
      snprintf(tok, sizeof tok, "c%dr%d", ci, i);
      r.token = tok;
      static const int kinds[] = {K_OK, K_OK, K_OK, K_OK, K_THROW, K_EMPTY, K_BIG, K_STATUS, K_ROUTE, K_ROUTE_405, K_OPTIONS, K_OK};
      r.kind = kinds[sim::draw(12)];
      static const char* methods[] = {"GET", "GET", "POST", "HEAD", "DELETE", "PUT", "HEAD"};
      r.method = methods[sim::draw(7)];
      static const unsigned durs[] = {0, 0, 1, 5, 20, 60};
      r.ms = durs[sim::draw(6)];
      r.close = sim::draw(10) == 9;
      bool last = i + 1 == n;
      r.http10 = sim::draw(16) == 15 && last;
      if (last && sim::draw(4) == 3) r.kind = K_UNPARSABLE;
      std::string path = "/t/" + r.token + "/" + std::to_string(r.kind) + "/" + std::to_string(r.ms);
      std::string body;
      r.expectStatus = 200;
      switch (r.kind)
      {
      case K_THROW: r.expectStatus = 500; break;
      case K_STATUS: r.expectStatus = 201 + (int)(r.ms % 2) * 203; break; // 201 or 404
      case K_ROUTE: path = "/route/x"; r.method = sim::draw(2) ? "GET" : "HEAD"; r.ms = 0; break;
      case K_ROUTE_405: path = "/route/x"; r.method = "DELETE"; r.expectStatus = 405; r.ms = 0; break;
      case K_OPTIONS: path = "/route/x"; r.method = "OPTIONS"; r.expectStatus = 204; r.ms = 0; break;
      default: break;
      }
      if (r.method == "POST" || r.method == "PUT") body = hgen::body_bytes(sim::draw(1u << 20), sim::draw(200), true);
      if (r.kind == K_UNPARSABLE)
      {
        r.method = "GET";
        switch (sim::draw(5))
        {
        case 0: r.unparsableWhat = "no request line structure"; r.wire = "THIS IS NOT HTTP\r\n\r\n"; break;
        case 1: r.unparsableWhat = "invalid method token"; r.wire = "G@T /t/" + r.token + " HTTP/1.1\r\nHost: h\r\n\r\n"; break;
        case 2: r.unparsableWhat = "unsupported version"; r.wire = "GET /t/" + r.token + " HTTP/3.7\r\nHost: h\r\n\r\n"; break;
        case 3: r.unparsableWhat = "missing Host"; r.wire = "GET /t/" + r.token + " HTTP/1.1\r\nX-A: b\r\n\r\n"; break;
        default: r.unparsableWhat = "two spaces in the request line"; r.wire = "GET  /t/" + r.token + " HTTP/1.1\r\nHost: h\r\n\r\n"; break;
        }
      }
      else
      {
        r.wire = r.method + " " + path + (r.http10 ? " HTTP/1.0\r\n" : " HTTP/1.1\r\n") + "Host: verif.example\r\nX-Token: " + r.token + "\r\n";
        if (r.close) r.wire += "Connection: close\r\n";
        if (!body.empty()) r.wire += "Content-Length: " + std::to_string(body.size()) + "\r\n";
        r.wire += "\r\n" + body;
      }
      c.reqs.push_back(r);
    }
    // grouping: everything pipelined at once, one by one with gaps, or drawn groups
    int gm = (int)sim::draw(3);
    for (size_t i = 1; i <= c.reqs.size(); i++)
    {
      bool end = i == c.reqs.size() || gm == 1 || (gm == 2 && sim::draw(2));
      if (end) { c.groupEnds.push_back(i); static const unsigned gaps[] = {0, 100, 2000, 30000, 100000}; c.gapUs.push_back(gaps[sim::draw(5)]); }
    }
  }
  for (int ci = 0; ci < nconn; ci++)
  {
    std::string l = "conn " + std::to_string(ci) + ":";
    size_t g = 0;
    for (size_t i = 0; i < conns[(size_t)ci].reqs.size(); i++)
    {
      auto& r = conns[(size_t)ci].reqs[i];
      l += " " + r.method + (r.kind == K_UNPARSABLE ? "(UNPARSABLE:" + r.unparsableWhat + ")" : "(k" + std::to_string(r.kind) + "," + std::to_string(r.ms) + "ms" + (r.close ? ",close" : "") + (r.http10 ? ",1.0" : "") + ")");
      if (g < conns[(size_t)ci].groupEnds.size() && conns[(size_t)ci].groupEnds[g] == i + 1) { l += " |"; g++; }
    }
    sim::notef("%s", l.c_str());
  }
  sim::net::NetConfig nc;
  static const uint64_t lats[] = {50000, 1000, 300000};
  nc.latency_ns = lats[sim::draw(3)];
  nc.jitter_ns = sim::draw(2) ? nc.latency_ns / 2 : 0;
  hx::SchedOpts so;
  so.stall_max_ns = 3000000;
  sim::Config cfg = hx::draw_sched(so);
  cfg.max_steps = 8000000;
  sim::begin(cfg);
  sim::net::configure(nc);

  // ---- server
  HttpServer* srv = new HttpServer("127.0.0.1", 8080);
  auto generic = [&](const HttpServer::Request& rq, HttpServer::Response& rs)
  {
    // path: /t/<token>/<kind>/<ms>
    std::string p = rq.path;
    std::string tok, kindS, msS;
    size_t a = p.find('/', 3);
    if (p.compare(0, 3, "/t/") == 0 && a != std::string::npos)
    {
      tok = p.substr(3, a - 3);
      size_t b = p.find('/', a + 1);
      kindS = p.substr(a + 1, b == std::string::npos ? std::string::npos : b - a - 1);
      if (b != std::string::npos) msS = p.substr(b + 1);
    }
    int kind = atoi(kindS.c_str());
    unsigned ms = (unsigned)atoi(msS.c_str());
    if (ms) std::this_thread::sleep_for(std::chrono::milliseconds(ms));
    rs.set_header("X-Token", tok);
    switch (kind)
    {
    case K_THROW: throw std::runtime_error("handler failure " + tok);
    case K_EMPTY: rs.set_content("", "text/plain"); break;
    case K_BIG: { const std::string big = tok + ":" + hgen::body_bytes(ms + 7, 3000 + ms * 50, true); rs.set_content(big, "application/octet-stream"); break; } // the const& overload
    case K_STATUS: rs.status = 201 + (int)(ms % 2) * 203; rs.set_content("status " + tok, "text/plain"); break;
    default: rs.set_content("hello " + tok + " body=" + std::to_string(rq.body.size()), "text/plain"); break;
    }
  };
  srv->setDefaultHandler(generic);
  srv->onGet("/route/x", [&](const HttpServer::Request& rq, HttpServer::Response& rs) { rs.set_header("X-Token", rq.get_header_value("X-Token")); rs.set_content("routed", "text/plain"); });
  srv->onPost("/route/x", [&](const HttpServer::Request& rq, HttpServer::Response& rs) { rs.set_header("X-Token", rq.get_header_value("X-Token")); rs.set_content("posted", "text/plain"); });
  srv->start();

  // ---- clients
  std::vector<std::thread> thr;
  for (int ci = 0; ci < nconn; ci++)
    thr.emplace_back([&, ci]
    {
      char nm[16];
      snprintf(nm, sizeof nm, "client%d", ci);
      sim::name_thread(nm);
      Conn& c = conns[(size_t)ci];
      int fd = peer::connect_to("127.0.0.1", 8080, 2000000000ull);
      if (fd < 0) sim::fail("harness", "connect failed");
      peer::set_sndtimeo(fd, 5000000000ull);
      size_t from = 0;
      bool sendFailed = false;
      for (size_t g = 0; g < c.groupEnds.size() && !sendFailed; g++)
      {
        std::string batch;
        for (size_t i = from; i < c.groupEnds[g]; i++) batch += c.reqs[i].wire;
        from = c.groupEnds[g];
        if (!peer::write_all(fd, batch)) sendFailed = true;
        c.lastSendNs = sim::now();
        // between groups: read what is there without blocking long (a real client would), then pause
        if (g + 1 < c.groupEnds.size())
        {
          if (c.gapUs[g]) { int rr = peer::read_some(fd, c.in, 65536, (uint64_t)c.gapUs[g] * 1000ull); if (rr == 0 || rr == -1) { c.closedByServer = true; c.closeSeenNs = sim::now(); break; } }
        }
      }
      // read until the server closes or nothing arrives for a while after everything expected could have been produced
      uint64_t quietSince = sim::now();
      while (!c.closedByServer && sim::now() - c.lastSendNs < 30000000000ull)
      {
        size_t before = c.in.size();
        int rr = peer::read_some(fd, c.in, 65536, 500000000ull);
        if (rr == 0 || rr == -1) { c.closedByServer = true; c.closeSeenNs = sim::now(); break; }
        if (c.in.size() != before) quietSince = sim::now();
        // all requests answered and 2 s of silence: done
        size_t pos = 0, got = 0;
        while (pos < c.in.size() && got < c.reqs.size()) { auto r = hgen::ref_parse_response(c.in, pos, c.reqs[got].method == "HEAD", false); if (!r.complete) break; pos = r.end; got++; }
        if (got >= c.reqs.size() && sim::now() - quietSince > 2000000000ull) break;
      }
      ::close(fd);
    });
  for (auto& t : thr) t.join();
  srv->stop();
  delete srv;

  if (sim::verbose())
    for (int ci = 0; ci < nconn; ci++)
    {
      std::string shown = conns[(size_t)ci].in.substr(0, 700);
      for (auto& ch : shown) if (ch == '\r') ch = '~'; else if (ch == '\n') ch = '|'; else if ((unsigned char)ch < 32 || (unsigned char)ch > 126) ch = '.';
      sim::notef("conn %d read %zu bytes, closedByServer=%d: %s", ci, conns[(size_t)ci].in.size(), conns[(size_t)ci].closedByServer, shown.c_str());
    }
  // ---- oracle per connection. Responses are attributed to requests by the token they echo (not by position), so that every
  // per-response check is independent of the order; the order itself is judged last.
  size_t matched = 0;
  std::string orderViolation;
  for (int ci = 0; ci < nconn; ci++)
  {
    Conn& c = conns[(size_t)ci];
    auto find_req = [&](const std::string& tok) -> int { for (size_t i = 0; i < c.reqs.size(); i++) if (c.reqs[i].token == tok && c.reqs[i].kind != K_UNPARSABLE) return (int)i; return -1; };
    // how many requests must be answered: up to and including the first request that ends the connection
    size_t must = c.reqs.size();
    for (size_t i = 0; i < c.reqs.size(); i++)
      if (c.reqs[i].close || c.reqs[i].kind == K_UNPARSABLE || c.reqs[i].kind == K_THROW) { must = i + 1; break; }
    size_t pos = 0;
    std::vector<hgen::RefResponse> resp;
    std::vector<int> owner; // index of the request each response answers (-1 unknown)
    std::vector<char> used(c.reqs.size(), 0);
    while (pos < c.in.size())
    {
      auto probe = hgen::ref_parse_response(c.in, pos, true, c.closedByServer); // header block only
      int qi = -1;
      if (probe.complete)
      {
        std::string tok = probe.header("x-token");
        if (!tok.empty()) qi = find_req(tok);
        if (qi < 0)
        {
          // responses produced without a handler carry no token: attribute by what they can answer, first unanswered candidate
          for (size_t i = 0; i < c.reqs.size() && qi < 0; i++)
          {
            if (used[i]) continue;
            Req& q = c.reqs[i];
            if (probe.status == 204 && q.kind == K_OPTIONS) qi = (int)i;
            else if (probe.status == 405 && q.kind == K_ROUTE_405) qi = (int)i;
            else if (probe.status >= 400 && probe.status != 405 && q.kind == K_UNPARSABLE) qi = (int)i;
            else if (probe.status == 503) qi = (int)i; // overload answers whatever came next
          }
        }
      }
      bool head = qi >= 0 && c.reqs[(size_t)qi].method == "HEAD";
      auto r = hgen::ref_parse_response(c.in, pos, head, c.closedByServer);
      if (!r.complete)
      {
        std::string shown = c.in.substr(pos, 60);
        for (auto& ch : shown) if ((unsigned char)ch < 32 || (unsigned char)ch > 126) ch = '.';
        sim::fail("c16-malformed-stream", "connection %d: after %zu well-formed responses the byte stream does not continue with a well-formed response (%s): '%s'", ci, resp.size(), r.error.c_str(), shown.c_str());
      }
      pos = r.end;
      if (qi >= 0)
      {
        if (used[(size_t)qi]) sim::fail("c16-duplicate-response", "connection %d: request %s was answered twice", ci, c.reqs[(size_t)qi].token.c_str());
        used[(size_t)qi] = 1;
      }
      resp.push_back(r);
      owner.push_back(qi);
    }
    for (size_t i = 0; i < resp.size(); i++)
    {
      auto& r = resp[i];
      if (owner[i] < 0) sim::fail("c16-extra-response", "connection %d: response %zu (status %d) answers none of the %zu requests sent", ci, i, r.status, c.reqs.size());
      Req& q = c.reqs[(size_t)owner[i]];
      if (q.kind == K_UNPARSABLE)
      {
        if (r.status < 400) sim::fail("c16-unparsable-accepted", "connection %d: unparsable request (%s) was answered with status %d", ci, q.unparsableWhat.c_str(), r.status);
        continue;
      }
      if (r.status != q.expectStatus && r.status != 503)
      {
        if (q.kind == K_THROW) sim::fail("c16-throw-not-500", "connection %d: the handler of %s threw, the response status is %d", ci, q.token.c_str(), r.status);
        sim::fail("c16-wrong-status", "connection %d: request %s (%s, kind %d) expected status %d, got %d", ci, q.token.c_str(), q.method.c_str(), q.kind, q.expectStatus, r.status);
      }
      // self-consistency: Content-Length (when present) equals the body that follows - the reference framer used it to split, so
      // a mismatch shows up as a malformed continuation above; here: HEAD has no body, 204 has neither body nor length
      if (q.method == "HEAD" && !r.body.empty()) sim::fail("c16-head-with-body", "connection %d: HEAD %s got %zu body bytes", ci, q.token.c_str(), r.body.size());
      if (r.status == 204 && r.count("content-length") && r.header("content-length") != "0") sim::fail("c16-204-with-length", "connection %d: 204 response carries Content-Length %s", ci, r.header("content-length").c_str());
      if (r.count("content-length") > 1) sim::fail("c16-duplicate-length", "connection %d: response %zu carries %d Content-Length fields", ci, i, r.count("content-length"));
      if (q.method != "HEAD" && r.status / 100 != 1 && r.status != 204 && r.status != 304 && !r.count("content-length") && r.header("transfer-encoding").empty() && !c.closedByServer)
        sim::fail("c16-unframed-response", "connection %d: response to %s has neither Content-Length nor Transfer-Encoding on a connection that stays open", ci, q.token.c_str());
      if (q.method != "HEAD" && r.status == 200 && q.kind == K_OK && r.body.find(q.token) == std::string::npos)
        sim::fail("c16-wrong-body", "connection %d: the body of the response carrying token %s does not belong to that request", ci, q.token.c_str());
      matched++;
    }
    // exactly one response per complete request (up to the request that ends the connection)
    for (size_t i = 0; i < must; i++)
    {
      if (used[i]) continue;
      Req& q = c.reqs[i];
      if (q.kind == K_UNPARSABLE)
      {
        if (!c.closedByServer) sim::fail("c16-left-waiting", "connection %d: unparsable request (%s) got neither an error status nor a closed connection within 30 s", ci, q.unparsableWhat.c_str());
        continue;
      }
      // a request pipelined behind one whose response was still being produced when a LATER request tore the connection down
      // cannot be told apart from the ordering defect; it is reported as such below
      bool laterAnswered = false;
      for (size_t k = i + 1; k < c.reqs.size(); k++) laterAnswered |= used[k] != 0;
      if (laterAnswered || c.closedByServer)
      {
        if (orderViolation.empty())
        {
          char b[400];
          snprintf(b, sizeof b, "connection %d: request %zu (%s %s, handler %u ms) got no response although %s", ci, i, q.method.c_str(), q.token.c_str(), q.ms,
                   laterAnswered ? "a request sent after it on the same connection was answered" : "the connection was closed by the response to a later request");
          orderViolation = b;
        }
        continue;
      }
      sim::fail("c16-missing-response", "connection %d: request %zu (%s %s, handler %u ms) of %zu never got a response within 30 s (%zu responses arrived, connection still open)", ci, i, q.method.c_str(), q.token.c_str(),
                q.ms, c.reqs.size(), resp.size());
    }
    // Connection: close: the server closes after that response and answers nothing later
    for (size_t i = 0; i < c.reqs.size(); i++)
    {
      Req& q = c.reqs[i];
      if (!q.close || q.kind == K_UNPARSABLE || !used[i]) continue;
      if (!c.closedByServer) sim::fail("c16-not-closed", "connection %d: request %zu asked for Connection: close, the server did not close the connection within 30 s", ci, i);
      size_t at = 0;
      for (size_t k = 0; k < resp.size(); k++) if (owner[k] == (int)i) at = k;
      for (size_t k = at + 1; k < resp.size(); k++)
        if (owner[k] > (int)i)
          sim::fail("c16-response-after-close", "connection %d: request %zu asked for Connection: close, yet the response to request %d, sent after it, followed on the wire", ci, i, owner[k]);
      break;
    }
    // order, judged last
    int prev = -1;
    for (size_t k = 0; k < resp.size() && orderViolation.empty(); k++)
    {
      if (owner[k] < prev)
      {
        char b[400];
        Req& early = c.reqs[(size_t)owner[k]];
        snprintf(b, sizeof b, "connection %d: the response to request %d (%s, handler %u ms) was written after the response to request %d", ci, owner[k], early.token.c_str(), early.ms, prev);
        orderViolation = b;
      }
      prev = std::max(prev, owner[k]);
    }
  }
  if (!orderViolation.empty()) sim::fail("c16-out-of-order", "%s", orderViolation.c_str());
  sim::count("c16.connections", (uint64_t)nconn);
  sim::count("c16.responses_matched", matched);
  sim::state_mix(matched * 131 + (uint64_t)nconn);
  sim::finish_ok();
}
