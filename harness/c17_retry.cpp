// C17: the HTTP client transmits a non-idempotent request at most once.
// A scripted raw-socket server executes one planned fault per exchange (refusal, reset before / during / after the request,
// truncated, malformed or missing response, close signals, surplus bytes) at drawn or swept byte offsets; callers (one or two,
// sharing one HttpClient) issue requests with drawn methods and retry budgets. The server records, per logical request, every
// exchange that carried at least one byte of it, and every byte that arrives on a connection that must not be reused.
#include "common.h"
#include "netpeer.h"
#include "httpgen.h"
#include "iora/core/logger.hpp"
#include "iora/network/http_client.hpp"

#include <atomic>
#include <mutex>
#include <poll.h>
#include <thread>

using namespace iora::network;

namespace
{
enum Fault
{
  A_OK, A_OK_CLOSEHDR, A_OK_SURPLUS, A_OK_CLOSEDELIM, A_RST_AT_ACCEPT, A_RST_AFTER_K, A_FIN_AFTER_K, A_RST_AFTER_REQ, A_FIN_AFTER_REQ, A_TRUNC_FIN, A_TRUNC_RST,
  A_MALFORMED, A_SILENT, A_PARTIAL_SILENT, A_NFAULTS
};
const char* fname[] = {"ok", "ok+Connection:close(kept open)", "ok+surplus bytes(kept open)", "ok close-delimited", "RST at accept", "RST after k request bytes", "FIN after k request bytes",
                       "RST after the request", "FIN after the request", "response truncated then FIN", "response truncated then RST", "malformed response", "silence", "partial response then silence"};
struct Exchange { int fault = A_OK; size_t pos = 0; int permille = -1; /* >= 0: position as a share of the request's length instead */ };
struct Logical
{
  std::string method;
  int budget = 0;
  std::string body;
  // observed
  bool threw = false, framingError = false, notSent = false;
  std::string what;
  int status = 0;
  uint64_t elapsedNs = 0;
  std::vector<int> exchangesWithBytes; // exchange ids (server side) that received >= 1 byte of this request
  std::vector<int> faultsSeen;
};
struct Port
{
  int port = 0;
  std::vector<Logical> reqs;
  std::vector<Exchange> plan;
  uint64_t listenDelayNs = 0;
  std::atomic<int> cur{-1};
  std::atomic<bool> stop{false};
  std::mutex mx;
  std::string reuse; // description of a forbidden reuse, if any
  size_t exchangesRun = 0;
};
const std::string kResponseBody = "result-ok";
std::string valid_response(bool closeHdr) { return std::string("HTTP/1.1 200 OK\r\nContent-Length: 9\r\n") + (closeHdr ? "Connection: close\r\n" : "") + "X-Srv: verif\r\n\r\n" + kResponseBody; }
} // namespace

extern "C" HarnessInfo harness_info() { return {"c17_retry", "C17", 40}; }

extern "C" void harness_run()
{
  iora::core::Logger::setLevel(iora::core::Logger::Level::Fatal);
  bool th = hx::thorough();
  int nports = sim::draw(4) == 3 ? 2 : 1; // two concurrent callers sharing the client, each talking to its own port
  bool sweep = sim::draw(4) == 2;         // fault position swept over the bytes of the request / response
  std::vector<std::unique_ptr<Port>> ports;
  const size_t reqLenGuess = 150;
  for (int pi = 0; pi < nports; pi++)
  {
    auto P = std::make_unique<Port>();
    P->port = 8080 + pi;
    static const uint64_t delays[] = {0, 0, 0, 50000000ull, 150000000ull, 400000000ull};
    P->listenDelayNs = delays[sim::draw(6)];
    static const char* methods[] = {"POST", "POST", "GET", "DELETE", "HEAD", "POST"};
    if (!sweep)
    {
      int n = 1 + (int)sim::draw(th ? 5 : 3);
      for (int i = 0; i < n; i++)
      {
        Logical L;
        L.method = methods[sim::draw(6)];
        L.budget = (int)sim::draw(4);
        if (L.method == "POST") L.body = hgen::body_bytes(sim::draw(1u << 20), sim::draw(4) == 3 ? 20000 + sim::draw(180000) : 1 + sim::draw(60), true); // some larger than any send buffer
        P->reqs.push_back(L);
      }
      size_t nex = P->reqs.size() * 4 + 2;
      for (size_t e = 0; e < nex; e++)
      {
        Exchange x;
        x.fault = sim::draw(3) == 0 ? A_OK : (int)sim::draw(A_NFAULTS);
        x.pos = sim::draw(reqLenGuess + 60);
        if (sim::draw(3) == 0) x.permille = (int)sim::draw(1001);
        P->plan.push_back(x);
      }
    }
    else
    {
      // one fault kind, the position stepping through the bytes; every logical request is a POST (or a drawn method) with budget 2
      static const int swept[] = {A_RST_AFTER_K, A_FIN_AFTER_K, A_TRUNC_FIN, A_TRUNC_RST, A_PARTIAL_SILENT};
      int fk = swept[sim::draw(5)];
      std::string m = methods[sim::draw(6)];
      size_t total = fk == A_RST_AFTER_K || fk == A_FIN_AFTER_K ? reqLenGuess : valid_response(false).size();
      size_t maxReq = fk == A_PARTIAL_SILENT ? (th ? 12 : 4) : (th ? 160 : 24);
      size_t stride = std::max<size_t>(1, total / maxReq);
      size_t off = stride > 1 ? sim::draw(stride) : 0;
      int budget = (int)sim::draw(3);
      for (size_t k = off; k <= total; k += stride)
      {
        Logical L;
        L.method = m;
        L.budget = budget;
        if (m == "POST") L.body = "swept-body-0123456789";
        P->reqs.push_back(L);
        Exchange x;
        x.fault = fk;
        x.pos = k;
        P->plan.push_back(x);
        // whatever follows a faulted exchange of the same logical request is answered properly
        for (int r = 0; r < budget; r++) P->plan.push_back(Exchange{});
      }
    }
    ports.push_back(std::move(P));
  }
  for (auto& P : ports)
  {
    std::string l = "port " + std::to_string(P->port) + " listens after " + std::to_string(P->listenDelayNs / 1000000) + " ms; requests:";
    for (size_t i = 0; i < P->reqs.size() && i < 8; i++) l += " " + P->reqs[i].method + "(budget " + std::to_string(P->reqs[i].budget) + ")";
    if (P->reqs.size() > 8) l += " ... (" + std::to_string(P->reqs.size()) + ")";
    l += "; exchanges:";
    for (size_t e = 0; e < P->plan.size() && e < 10; e++) l += std::string(" [") + fname[P->plan[e].fault] + " @" + std::to_string(P->plan[e].pos) + "]";
    sim::notef("%s%s", l.c_str(), sweep ? " (SWEEP)" : "");
  }
  sim::net::NetConfig nc;
  static const uint64_t lats[] = {50000, 1000, 300000};
  nc.latency_ns = lats[sim::draw(3)];
  nc.jitter_ns = sim::draw(2) ? nc.latency_ns / 2 : 0;
  static const unsigned sw[] = {0, 0, 300};
  nc.short_write_permille = sw[sim::draw(3)];
  static const size_t sbufs[] = {65536, 65536, 4096, 1024};
  nc.sndbuf = sbufs[sim::draw(4)];
  nc.rcvbuf = sbufs[sim::draw(4)];
  hx::SchedOpts so;
  so.stall_max_ns = 2000000;
  sim::Config cfg = hx::draw_sched(so);
  cfg.max_steps = 10000000;
  sim::begin(cfg);
  sim::net::configure(nc);

  const uint64_t requestTimeoutMs = 1500, connectTimeoutMs = 1000;

  // ---- scripted servers, one thread per port
  std::vector<std::thread> srvThr;
  for (auto& Pp : ports)
    srvThr.emplace_back([&, P = Pp.get()]
    {
      sim::name_thread("http-peer");
      if (P->listenDelayNs) sim::sleep_ns(P->listenDelayNs);
      int lfd = peer::listen_on("10.0.0.2", P->port);
      if (lfd < 0) sim::fail("harness", "listen failed");
      struct Held { int fd; bool tainted; const char* why; int id; };
      std::vector<Held> held;
      int connSeq = 0;
      size_t e = 0;
      auto note_bytes = [&](int exchangeId, int fault)
      {
        int cur = P->cur.load();
        if (cur < 0) return;
        std::lock_guard<std::mutex> g(P->mx);
        auto& v = P->reqs[(size_t)cur].exchangesWithBytes;
        if (v.empty() || v.back() != exchangeId) { v.push_back(exchangeId); P->reqs[(size_t)cur].faultsSeen.push_back(fault); }
      };
      // reads until `want` bytes, the end of the header block (+ Content-Length body) or a timeout; returns bytes read
      auto read_request = [&](int fd, size_t limit, bool wholeRequest, int exchangeId, int fault, std::string& in) -> bool
      {
        uint64_t t0 = sim::now();
        while (sim::now() - t0 < 3000000000ull && !P->stop.load())
        {
          if (!wholeRequest && in.size() >= limit) return true;
          if (wholeRequest)
          {
            size_t he = in.find("\r\n\r\n");
            if (he != std::string::npos)
            {
              size_t need = 0;
              std::string head = hgen::lower(in.substr(0, he));
              size_t clp = head.find("content-length:");
              if (clp != std::string::npos) need = (size_t)atoi(head.c_str() + clp + 15);
              if (in.size() >= he + 4 + need) return true;
            }
          }
          size_t before = in.size();
          int rr = peer::read_some(fd, in, wholeRequest ? 4096 : limit - in.size(), 20000000);
          if (in.size() > before) note_bytes(exchangeId, fault);
          if (rr == 0 || rr == -1) return false;
        }
        return false;
      };
      while (!P->stop.load())
      {
        std::vector<pollfd> pf;
        pf.push_back({lfd, POLLIN, 0});
        for (auto& h : held) pf.push_back({h.fd, POLLIN, 0});
        int pr = ::poll(pf.data(), pf.size(), 5);
        if (pr <= 0) continue;
        if (pf[0].revents & POLLIN)
        {
          int c = peer::accept_one(lfd, 1000000);
          if (c >= 0)
          {
            // a reset right at accept is a property of the NEXT planned exchange if it says so
            if (e < P->plan.size() && P->plan[e].fault == A_RST_AT_ACCEPT) { e++; P->exchangesRun++; sim::count("c17.fault.RST at accept", 1); peer::rst_close(c); }
            else held.push_back({c, false, "", connSeq++});
          }
        }
        size_t polled = pf.size() - 1; // connections accepted just now are looked at in the next round
        std::vector<short> rev;
        for (size_t k = 0; k < polled; k++) rev.push_back(pf[k + 1].revents);
        for (size_t hi = 0, ri = 0; hi < held.size() && ri < polled; hi++, ri++)
        {
          if (!(rev[ri] & (POLLIN | POLLHUP | POLLERR))) continue;
          Held h = held[hi];
          if (h.tainted)
          {
            std::string tmp;
            int rr = peer::read_some(h.fd, tmp, 4096, 1000000);
            if (!tmp.empty())
            {
              std::lock_guard<std::mutex> g(P->mx);
              if (P->reuse.empty()) P->reuse = std::string("a connection that had ") + h.why + " carried " + std::to_string(tmp.size()) + " bytes of a later request (logical request " + std::to_string(P->cur.load()) + ")";
            }
            if (rr == 0 || rr == -1 || !tmp.empty()) { ::close(h.fd); held.erase(held.begin() + (long)hi); hi--; }
            continue;
          }
          // next planned exchange on this connection
          Exchange x = e < P->plan.size() ? P->plan[e] : Exchange{};
          int exId = (int)e;
          e++;
          P->exchangesRun++;
          { std::string cn = std::string("c17.fault.") + fname[x.fault]; sim::count(cn.c_str(), 1); }
          if (x.fault == A_RST_AT_ACCEPT) x.fault = A_RST_AFTER_K, x.pos = 1; // on a kept-alive connection: as soon as the request starts to arrive
          if (x.permille >= 0 && (x.fault == A_RST_AFTER_K || x.fault == A_FIN_AFTER_K))
          {
            int cur = P->cur.load();
            size_t len = reqLenGuess + (cur >= 0 ? P->reqs[(size_t)cur].body.size() : 0);
            x.pos = len * (size_t)x.permille / 1000;
          }
          std::string in;
          bool keep = false;
          std::string resp = valid_response(false);
          switch (x.fault)
          {
          case A_RST_AFTER_K: read_request(h.fd, std::max<size_t>(1, x.pos), false, exId, x.fault, in); peer::rst_close(h.fd); h.fd = -1; break;
          case A_FIN_AFTER_K: read_request(h.fd, std::max<size_t>(1, x.pos), false, exId, x.fault, in); break;
          case A_RST_AFTER_REQ: read_request(h.fd, 0, true, exId, x.fault, in); peer::rst_close(h.fd); h.fd = -1; break;
          case A_FIN_AFTER_REQ: read_request(h.fd, 0, true, exId, x.fault, in); break;
          case A_TRUNC_FIN: case A_TRUNC_RST:
            if (read_request(h.fd, 0, true, exId, x.fault, in)) peer::write_all(h.fd, resp.substr(0, std::min(x.pos, resp.size() - 1)));
            if (x.fault == A_TRUNC_RST) { sim::sleep_ns(2000000); peer::rst_close(h.fd); h.fd = -1; }
            break;
          case A_MALFORMED:
            if (read_request(h.fd, 0, true, exId, x.fault, in)) peer::write_all(h.fd, x.pos % 2 ? "HTTP/1.1 200 OK\r\nContent-Length: 9\r\nContent-Length: 4\r\n\r\nresult-ok" : "HTTP/1.1 200 OK\r\nTransfer-Encoding: chunked\r\n\r\nzz\r\nresult-ok\r\n0\r\n\r\n");
            break;
          case A_SILENT: case A_PARTIAL_SILENT:
            if (read_request(h.fd, 0, true, exId, x.fault, in))
            {
              if (x.fault == A_PARTIAL_SILENT) peer::write_all(h.fd, resp.substr(0, std::min(x.pos, resp.size() - 1)));
              // hold the connection until the client gives up (EOF / reset) or far longer than any configured timeout
              std::string tmp;
              uint64_t t0 = sim::now();
              while (sim::now() - t0 < 20000000000ull && !P->stop.load()) { int rr = peer::read_some(h.fd, tmp, 4096, 50000000); if (rr == 0 || rr == -1) break; }
            }
            break;
          case A_OK_CLOSEDELIM:
            if (read_request(h.fd, 0, true, exId, x.fault, in)) peer::write_all(h.fd, "HTTP/1.1 200 OK\r\nX-Srv: verif\r\n\r\n" + kResponseBody);
            break;
          case A_OK_CLOSEHDR:
            if (read_request(h.fd, 0, true, exId, x.fault, in) && peer::write_all(h.fd, valid_response(true))) { keep = true; h.tainted = true; h.why = "announced Connection: close"; }
            break;
          case A_OK_SURPLUS:
            if (read_request(h.fd, 0, true, exId, x.fault, in) && peer::write_all(h.fd, resp + "SURPLUS-BYTES")) { keep = true; h.tainted = true; h.why = "delivered surplus bytes after a response"; }
            break;
          default:
            if (read_request(h.fd, 0, true, exId, x.fault, in) && peer::write_all(h.fd, resp)) keep = true;
            break;
          }
          if (keep) held[hi] = h;
          else { if (h.fd >= 0) ::close(h.fd); held.erase(held.begin() + (long)hi); hi--; }
        }
      }
      for (auto& h : held) ::close(h.fd);
      ::close(lfd);
    });

  // ---- callers
  {
    HttpClient::Config hc;
    hc.connectTimeout = std::chrono::milliseconds(connectTimeoutMs);
    hc.requestTimeout = std::chrono::milliseconds(requestTimeoutMs);
    HttpClient client(hc);
    std::vector<std::thread> callers;
    for (auto& Pp : ports)
      callers.emplace_back([&, P = Pp.get()]
      {
        sim::name_thread("caller");
        for (size_t i = 0; i < P->reqs.size(); i++)
        {
          Logical& L = P->reqs[i];
          std::string url = "http://10.0.0.2:" + std::to_string(P->port) + "/r/p" + std::to_string(P->port) + "-" + std::to_string(i);
          P->cur.store((int)i);
          uint64_t t0 = sim::now();
          try
          {
            HttpClient::Response r;
            if (L.method == "GET") r = client.get(url, {}, L.budget);
            else if (L.method == "HEAD") r = client.head(url, {}, L.budget);
            else if (L.method == "DELETE") r = client.deleteRequest(url, {}, L.budget);
            else r = client.post(url, L.body, {{"Content-Type", "text/plain"}}, L.budget);
            L.status = r.statusCode;
          }
          catch (const HttpFramingError& e) { L.threw = true; L.framingError = true; L.what = e.what(); }
          catch (const HttpRequestNotSentError& e) { L.threw = true; L.notSent = true; L.what = e.what(); }
          catch (const std::exception& e) { L.threw = true; L.what = e.what(); }
          L.elapsedNs = sim::now() - t0;
          // let the server finish its side of the exchange (bytes still in flight belong to this request)
          sim::sleep_ns(5000000);
          P->cur.store(-1);
        }
      });
    for (auto& t : callers) t.join();
  }
  for (auto& P : ports) P->stop.store(true);
  for (auto& t : srvThr) t.join();

  // ---- oracle
  size_t checked = 0, multiAttempt = 0;
  for (auto& Pp : ports)
  {
    Port& P = *Pp;
    if (!P.reuse.empty()) sim::fail("c17-connection-reused", "port %d: %s", P.port, P.reuse.c_str());
    for (size_t i = 0; i < P.reqs.size(); i++)
    {
      Logical& L = P.reqs[i];
      bool idem = L.method != "POST";
      size_t onWire = L.exchangesWithBytes.size();
      std::string fs;
      for (int f : L.faultsSeen) fs += std::string(fs.empty() ? "" : ", ") + fname[f];
      if (!idem && onWire > 1)
        sim::fail("c17-double-submit", "port %d request %zu: %s with retry budget %d reached the wire in %zu attempts (server side saw: %s); outcome: %s", P.port, i, L.method.c_str(), L.budget, onWire, fs.c_str(),
                  L.threw ? L.what.c_str() : "response returned");
      if (idem && onWire > (size_t)L.budget + 1)
        sim::fail("c17-too-many-attempts", "port %d request %zu: %s with retry budget %d was attempted %zu times on the wire (server side saw: %s)", P.port, i, L.method.c_str(), L.budget, onWire, fs.c_str());
      // deterministic framing errors are never retried
      for (size_t k = 0; k + 1 < L.faultsSeen.size(); k++)
        if (L.faultsSeen[k] == A_MALFORMED)
          sim::fail("c17-framing-error-retried", "port %d request %zu: %s (budget %d) was sent again after a malformed response (server side saw: %s)", P.port, i, L.method.c_str(), L.budget, fs.c_str());
      if (!L.faultsSeen.empty() && L.faultsSeen.back() == A_MALFORMED && !L.threw && L.method != "HEAD") // (a HEAD response has no body to frame)
        sim::fail("c17-malformed-accepted", "port %d request %zu: a malformed response was returned to the caller (status %d)", P.port, i, L.status);
      // bounded waiting: every attempt is bounded by connect + send + one receive timeout (a silent peer gets exactly one), plus back-off
      uint64_t backoff = 0;
      for (int a = 0; a < L.budget; a++) backoff += ((1ull << a) * 100 + 100) * 1000000ull;
      uint64_t perAttempt = (connectTimeoutMs + 2 * requestTimeoutMs) * 1000000ull + 700000000ull; // incl. the DNS-less connect path and scheduling slack
      uint64_t bound = (uint64_t)(L.budget + 1) * perAttempt + backoff;
      bool onlySilence = !L.faultsSeen.empty();
      for (int f : L.faultsSeen) if (f != A_SILENT && f != A_OK && f != A_PARTIAL_SILENT) onlySilence = false;
      if (L.elapsedNs > bound + sim::stalled_ns())
        sim::fail("c17-waited-too-long", "port %d request %zu: %s (budget %d) took %.2f s, more than %d attempts of connect %llu ms + request %llu ms (+ back-off) allow (server side saw: %s)", P.port, i, L.method.c_str(),
                  L.budget, L.elapsedNs / 1e9, L.budget + 1, (unsigned long long)connectTimeoutMs, (unsigned long long)requestTimeoutMs, fs.c_str());
      (void)onlySilence;
      checked++;
      if (onWire > 1) multiAttempt++;
    }
  }
  size_t ex = 0;
  for (auto& P : ports) ex += P->exchangesRun;
  sim::count("c17.logical_requests", checked);
  sim::count("c17.requests_with_retries_on_the_wire", multiAttempt);
  sim::count("c17.exchanges_run", ex);
  sim::state_mix(checked * 131 + multiAttempt * 7 + ex);
  sim::finish_ok();
}
