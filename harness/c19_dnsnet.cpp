// C19 (network clauses): a real DnsClient (DnsResolver + DnsTransport over the UDP/TCP engines) against a scripted DNS server on
// the simulated network. Responses come from a structure-aware generator with its own encoder and compressor (dnspeer.h); the
// fault plan truncates, corrupts, loops or mis-points them, answers with TC (TCP fallback), stays silent, duplicates or delays.
// Oracle: well-formed responses decode to exactly the records encoded; malformed ones end in a result or an error within the
// configured time budget (never a hang, never a crash), pointer loops and out-of-range pointers always in an error; a second query
// inside the TTL is answered without a datagram, after the TTL a new datagram goes out.
#include "common.h"
#include "dnspeer.h"
#include "iora/core/logger.hpp"
#include "iora/network/dns_client.hpp"

#include <atomic>
#include <map>
#include <mutex>
#include <thread>

using namespace iora::network;

namespace
{
enum Mut { M_NONE, M_COMPRESS_NEVER, M_COMPRESS_COIN, M_TRUNCATE, M_FLIP, M_PTR_LOOP, M_PTR_SELF, M_PTR_OUT_OF_RANGE, M_PTR_FORWARD, M_COUNT_TOO_BIG, M_LABEL_TOO_LONG, M_RDLEN_TOO_BIG, M_TC_THEN_TCP, M_SILENT,
           M_DUPLICATE, M_NXDOMAIN, M_WRONG_QUESTION, M_N };
const char* mutName[] = {"well-formed", "well-formed, no compression", "well-formed, compression drawn per name", "truncated", "byte flipped", "compression pointer loop", "pointer to itself",
                         "pointer beyond the message", "pointer forward into RDATA", "answer count exceeding the content", "label longer than 63", "RDLENGTH beyond the message", "TC set on UDP, full answer on TCP",
                         "silence", "answer sent twice", "NXDOMAIN with SOA", "answer to another question under the pending ID"};
struct QPlan
{
  std::string name;
  uint16_t type = dnsw::T_A;
  std::vector<dnsw::Rec> answers, authority, additional;
  int mut = M_NONE;
  uint64_t r = 0;
  uint32_t ttl = 60;
  // observed
  bool threw = false, got = false;
  std::string what;
  dns::DnsResult res;
  uint64_t elapsedNs = 0;
  unsigned udpSeen = 0, tcpSeen = 0;
};
std::string v6text(const std::string& raw)
{
  char b[64];
  inet_ntop(AF_INET6, raw.data(), b, sizeof b);
  return b;
}
std::string lower(std::string s) { for (auto& c : s) c = (char)tolower((unsigned char)c); return s; }
bool same_name(const std::string& a, const std::string& b)
{
  std::string x = lower(a), y = lower(b);
  if (!x.empty() && x.back() == '.') x.pop_back();
  if (!y.empty() && y.back() == '.') y.pop_back();
  return x == y;
}
} // namespace

extern "C" HarnessInfo harness_info() { return {"c19_dnsnet", "C19", 40}; }

extern "C" void harness_run()
{
  iora::core::Logger::setLevel(iora::core::Logger::Level::Fatal);
  bool th = hx::thorough();
  int nq = 1 + (int)sim::draw(th ? 6 : 4);
  std::vector<QPlan> plan((size_t)nq);
  static const uint16_t types[] = {dnsw::T_A, dnsw::T_AAAA, dnsw::T_SRV, dnsw::T_NAPTR, dnsw::T_MX, dnsw::T_TXT, dnsw::T_CNAME, dnsw::T_PTR, dnsw::T_A};
  for (int i = 0; i < nq; i++)
  {
    QPlan& q = plan[(size_t)i];
    q.r = sim::draw(1ull << 40);
    q.type = types[sim::draw(9)];
    static const char* zones[] = {"verif.example", "Verif.Example", "a.very.deep.sub.domain.verif.example", "x"};
    q.name = "q" + std::to_string(i) + "." + zones[sim::draw(4)];
    q.mut = sim::draw(3) == 0 ? (int)sim::draw(3) : (int)sim::draw(M_N);
    static const uint32_t ttls[] = {1, 2, 3, 60, 3600};
    q.ttl = ttls[sim::draw(5)];
    int nrec = 1 + (int)sim::draw(4);
    for (int k = 0; k < nrec; k++)
    {
      dnsw::Rec r;
      r.name = sim::draw(4) == 0 ? lower(q.name) : q.name; // owner names in another case compress against the question's spelling
      r.type = q.type;
      r.ttl = q.ttl + (uint32_t)k;
      uint64_t x = q.r + (uint64_t)k * 7919;
      switch (q.type)
      {
      case dnsw::T_A:
        // incl. addresses whose octets look like compression pointers or label lengths
        r.addr = k == 1 && (x >> 12) % 16 == 0 ? "192." + std::to_string(x % 64) + ".0.0" : k == 1 ? "192.168." + std::to_string(x % 250) + ".0" : k == 2 ? "255.255.255.255" : "10." + std::to_string(x % 250) + "." + std::to_string((x >> 8) % 250) + "." + std::to_string(1 + k);
        break;
      case dnsw::T_AAAA: r.addr = std::string("\x20\x01\x0d\xb8", 4) + hx::keyed_bytes(x, 12); break;
      case dnsw::T_SRV: r.prio = (uint16_t)(x % 100); r.weight = (uint16_t)((x >> 8) % 100); r.port = (uint16_t)(5060 + k); r.target = "sip" + std::to_string(k) + "." + (k % 2 ? "other.example" : "verif.example"); break;
      case dnsw::T_NAPTR: r.prio = (uint16_t)(10 + k); r.weight = (uint16_t)(x % 50); r.flags = k % 2 ? "S" : "s"; r.service = "SIP+D2U"; r.regexp = k % 2 ? "" : "!^.*$!sip:info@verif.example!"; r.target = k % 2 ? "_sip._udp.verif.example" : ""; break;
      case dnsw::T_MX: r.prio = (uint16_t)(10 * (k + 1)); r.target = "mx" + std::to_string(k) + ".mail.verif.example"; break;
      case dnsw::T_TXT: r.txt = {"v=verif" + std::to_string(k), std::string((size_t)(x % 200), 't'), "", "caf\xC3\xA9 \xE2\x82\xAC", hx::keyed_bytes(x, 20)}; break; // arbitrary octets are legal
      case dnsw::T_CNAME: r.target = "canon" + std::to_string(k) + ".verif.example"; break;
      case dnsw::T_PTR: r.target = "host" + std::to_string(k) + ".verif.example"; break;
      default: break;
      }
      q.answers.push_back(r);
      if (q.type == dnsw::T_CNAME || q.type == dnsw::T_PTR) break; // one is enough
    }
    if (sim::draw(2))
    {
      dnsw::Rec ns;
      ns.name = "verif.example";
      ns.type = dnsw::T_NS;
      ns.ttl = 3600;
      ns.target = "ns1.verif.example";
      q.authority.push_back(ns);
      dnsw::Rec glue;
      glue.name = "ns1.verif.example";
      glue.type = dnsw::T_A;
      glue.ttl = 3600;
      glue.addr = "10.9.9.9";
      q.additional.push_back(glue);
    }
  }
  bool cacheProbe = sim::draw(2) == 1;
  int nthreads = 1 + (int)sim::draw(2);
  dns::DnsConfig cfg(std::vector<std::string>{"10.0.0.53"}, (std::uint16_t)53);
  cfg.timeout = std::chrono::milliseconds(600);
  cfg.tcpTimeout = std::chrono::milliseconds(900);
  cfg.retryCount = (int)sim::draw(3);
  cfg.initialRetryDelay = std::chrono::milliseconds(100);
  cfg.maxRetryDelay = std::chrono::milliseconds(400);
  cfg.enableCache = true;
  {
    std::string l = "queries:";
    for (auto& q : plan) l += " [" + q.name + " type " + std::to_string(q.type) + " x" + std::to_string(q.answers.size()) + " ttl " + std::to_string(q.ttl) + ": " + mutName[q.mut] + "]";
    sim::notef("%s; retryCount=%d threads=%d cacheProbe=%d", l.c_str(), cfg.retryCount, nthreads, cacheProbe);
  }
  sim::net::NetConfig nc;
  static const uint64_t lats[] = {50000, 1000, 2000000};
  nc.latency_ns = lats[sim::draw(3)];
  nc.jitter_ns = sim::draw(2) ? nc.latency_ns / 2 : 0;
  static const unsigned drops[] = {0, 0, 0, 100};
  nc.udp_drop_permille = drops[sim::draw(4)];
  nc.udp_dup_permille = sim::draw(4) == 3 ? 100 : 0;
  hx::SchedOpts so;
  so.stall_max_ns = 2000000;
  sim::Config scfg = hx::draw_sched(so);
  scfg.max_steps = 10000000;
  sim::begin(scfg);
  sim::net::configure(nc);

  // ---- the scripted server
  std::mutex mx;
  dnsw::Server srv;
  srv.answer = [&](const dnsw::Query& qy, bool tcp) -> std::string
  {
    if (!qy.ok || qy.q.empty()) return std::string();
    QPlan* q = nullptr;
    for (auto& p : plan) if (same_name(p.name, qy.q[0].name)) q = &p;
    if (!q) return std::string();
    {
      std::lock_guard<std::mutex> g(mx);
      if (tcp) q->tcpSeen++; else q->udpSeen++;
    }
    dnsw::Response r;
    r.id = qy.id;
    r.questions = qy.q;
    r.answers = q->answers;
    r.authority = q->authority;
    r.additional = q->additional;
    uint64_t x = q->r;
    uint64_t coinState = x | 1;
    r.policy = q->mut == M_COMPRESS_NEVER ? 0 : q->mut == M_COMPRESS_COIN ? 2 : 1;
    r.coin = [coinState]() mutable { coinState = coinState * 6364136223846793005ull + 1442695040888963407ull; return ((coinState >> 40) & 1) != 0; };
    if (q->mut == M_NXDOMAIN)
    {
      r.rcode = 3;
      r.answers.clear();
      r.authority.clear();
      r.additional.clear();
      dnsw::Rec soa;
      soa.name = "verif.example";
      soa.type = dnsw::T_SOA;
      soa.ttl = q->ttl;
      soa.target = "ns1.verif.example";
      soa.rname = "root.verif.example";
      soa.minimum = q->ttl;
      r.authority.push_back(soa);
      return r.encode();
    }
    if (q->mut == M_SILENT) return std::string();
    if (q->mut == M_WRONG_QUESTION)
    {
      // a stale duplicate of another exchange / a forged datagram: right ID, well-formed, but about another name
      r.questions[0].name = "other-" + r.questions[0].name;
      r.answers.clear();
      dnsw::Rec spoof;
      spoof.name = r.questions[0].name;
      spoof.type = dnsw::T_A;
      spoof.ttl = 3600;
      spoof.addr = "6.6.6.6";
      r.answers.push_back(spoof);
      r.authority.clear();
      r.additional.clear();
      return r.encode();
    }
    if (q->mut == M_TC_THEN_TCP && !tcp)
    {
      r.tc = true;
      r.answers.clear();
      r.authority.clear();
      r.additional.clear();
      return r.encode();
    }
    std::string m = r.encode();
    size_t qend = 12;
    { dnsw::Query tmp = dnsw::parse_query(m); qend = tmp.qend ? tmp.qend : 12; }
    switch (q->mut)
    {
    case M_TRUNCATE: m.resize(12 + x % (m.size() - 12)); break;
    case M_FLIP: { size_t at = 2 + x % (m.size() - 2); m[at] = (char)(m[at] ^ (1 << ((x >> 20) % 8))); break; }
    case M_PTR_LOOP: // the first answer's owner name becomes a pointer to a pointer that points back
      if (m.size() > qend + 4) { size_t a = qend; m[a] = (char)0xC0; m[a + 1] = (char)(a + 2); m[a + 2] = (char)0xC0; m[a + 3] = (char)a; }
      break;
    case M_PTR_SELF: if (m.size() > qend + 2) { m[qend] = (char)(0xC0 | (qend >> 8)); m[qend + 1] = (char)(qend & 255); } break;
    case M_PTR_OUT_OF_RANGE: if (m.size() > qend + 2) { size_t t = m.size() + 10 + x % 1000; m[qend] = (char)(0xC0 | ((t >> 8) & 0x3F)); m[qend + 1] = (char)(t & 255); } break;
    case M_PTR_FORWARD: if (m.size() > qend + 14) { size_t t = qend + 12; m[qend] = (char)(0xC0 | (t >> 8)); m[qend + 1] = (char)(t & 255); } break;
    case M_COUNT_TOO_BIG: m[6] = (char)0x7F; m[7] = (char)0xFF; break;
    case M_LABEL_TOO_LONG: if (m.size() > qend + 1 && ((unsigned char)m[qend] & 0xC0) == 0) m[qend] = (char)0x7F; else if (m.size() > 13) m[12] = (char)0x7F; break;
    case M_RDLEN_TOO_BIG:
    {
      // owner name of the first answer, then type(2) class(2) ttl(4) rdlength(2)
      size_t p = qend;
      while (p < m.size() && m[p] != 0 && ((unsigned char)m[p] & 0xC0) != 0xC0) p += 1 + (unsigned char)m[p];
      p += ((unsigned char)m[p] & 0xC0) == 0xC0 ? 2 : 1;
      if (p + 10 <= m.size()) { m[p + 8] = (char)0xFF; m[p + 9] = (char)0xF0; }
      break;
    }
    default: break;
    }
    if (q->mut == M_DUPLICATE && !tcp)
    {
      // the second copy is sent by a helper socket-less trick: the server loop sends one answer per query, so answer twice here
      // by appending nothing; duplication is provided by the network's own duplication knob instead
    }
    return m;
  };
  srv.start();

  // ---- the client
  std::atomic<size_t> nextQ{0};
  uint64_t perAttemptNs = 600000000ull + 900000000ull + 400000000ull;
  uint64_t boundNs = (uint64_t)(cfg.retryCount + 1) * perAttemptNs * 2 + 1500000000ull;
  {
    DnsClient client(cfg);
    client.start();
    std::vector<std::thread> thr;
    for (int t = 0; t < nthreads; t++)
      thr.emplace_back([&]
      {
        sim::name_thread("resolver-user");
        for (;;)
        {
          size_t i = nextQ.fetch_add(1);
          if (i >= plan.size()) break;
          QPlan& q = plan[i];
          uint64_t t0 = sim::now();
          try { q.res = client.query(dns::DnsQuestion(q.name, (dns::DnsType)q.type, dns::DnsClass::IN)); q.got = true; }
          catch (const std::exception& e) { q.threw = true; q.what = e.what(); }
          q.elapsedNs = sim::now() - t0;
          if (sim::verbose() && q.got)
          {
            std::string l = "result " + q.name + ": answers";
            for (auto& a : q.res.answers) l += " ttl=" + std::to_string(a.ttl);
            l += " a_records";
            for (auto& a : q.res.a_records) l += " ttl=" + std::to_string(a.ttl);
            l += " authority";
            for (auto& a : q.res.authority) l += " ttl=" + std::to_string(a.ttl);
            l += " additional";
            for (auto& a : q.res.additional) l += " ttl=" + std::to_string(a.ttl);
            l += " at " + std::to_string(sim::now() / 1000000) + " ms";
            sim::notef("%s", l.c_str());
          }
        }
      });
    for (auto& t : thr) t.join();

    // ---- TTL through the real client: same question inside the TTL => no datagram; after it => a new one
    if (cacheProbe)
      for (auto& q : plan)
      {
        if (!q.got || q.mut > M_COMPRESS_COIN || q.ttl > 3) continue;
        unsigned before;
        { std::lock_guard<std::mutex> g(mx); before = q.udpSeen + q.tcpSeen; }
        // immediately again: the smallest TTL is >= 1 s and (for the first probed entry) far less time has passed; if more than
        // (ttl - 0.2) s have passed since the answer this part is skipped
        bool threw = false;
        dns::DnsResult again;
        try { again = client.query(dns::DnsQuestion(q.name, (dns::DnsType)q.type, dns::DnsClass::IN)); } catch (const std::exception&) { threw = true; }
        (void)again;
        (void)threw;
        // after the TTL has certainly elapsed
        sim::sleep_ns(((uint64_t)q.ttl + (uint64_t)q.answers.size()) * 1000000000ull + 300000000ull);
        unsigned mid;
        { std::lock_guard<std::mutex> g(mx); mid = q.udpSeen + q.tcpSeen; }
        bool answered = false;
        std::string err;
        try { (void)client.query(dns::DnsQuestion(q.name, (dns::DnsType)q.type, dns::DnsClass::IN)); answered = true; } catch (const std::exception& e) { err = e.what(); }
        unsigned after;
        { std::lock_guard<std::mutex> g(mx); after = q.udpSeen + q.tcpSeen; }
        if (!answered && after == mid) sim::notef("probe of %s failed without a datagram: %s", q.name.c_str(), err.c_str());
        if (after == mid && answered)
          sim::fail("c19-served-after-ttl", "query for %s (smallest TTL %u s) was answered without asking the server %.1f s after the answer was received (datagrams seen for it: %u before the re-query, %u after it, %u after the wait)",
                    q.name.c_str(), q.ttl, (double)q.ttl + (double)q.answers.size() + 0.3, before, mid, after);
        (void)before;
        sim::count("c19.ttl_probes", 1);
      }
    client.stop();
  }
  srv.shutdown();

  // ---- oracle
  size_t exact = 0, rejected = 0;
  for (auto& q : plan)
  {
    if (!q.got && !q.threw) sim::fail("harness", "query %s neither returned nor threw", q.name.c_str());
    if (q.elapsedNs > boundNs + sim::stalled_ns())
      sim::fail("c19-not-prompt", "query %s (%s) took %.2f s although timeout, TCP timeout and retry policy allow at most %.2f s", q.name.c_str(), mutName[q.mut], q.elapsedNs / 1e9, boundNs / 1e9);
    if (q.mut == M_WRONG_QUESTION && q.got)
      sim::fail("c19-wrong-question-accepted", "query %s was completed with a response whose question section names another domain (%zu A records, first %s)", q.name.c_str(), q.res.a_records.size(),
                q.res.a_records.empty() ? "-" : q.res.a_records[0].address.c_str());
    bool mustError = q.mut == M_PTR_LOOP || q.mut == M_PTR_SELF || q.mut == M_PTR_OUT_OF_RANGE || q.mut == M_SILENT || q.mut == M_NXDOMAIN || q.mut == M_WRONG_QUESTION;
    if (mustError)
    {
      if (q.got) sim::fail("c19-malformed-accepted", "query %s answered with a response carrying a %s was returned as a result (%zu A records, %zu answers)", q.name.c_str(), mutName[q.mut], q.res.a_records.size(), q.res.answers.size());
      rejected++;
      continue;
    }
    bool wellFormed = q.mut <= M_COMPRESS_COIN || q.mut == M_TC_THEN_TCP || q.mut == M_DUPLICATE;
    if (!wellFormed) { if (q.threw) rejected++; continue; } // truncated / corrupted: a result or an error, both in time - judged above
    if (q.threw)
    {
      // a lost datagram on every attempt is possible when the network drops
      if (nc.udp_drop_permille) continue;
      // a separately tracked case: an A record whose address is 192.N.0.0 with N < 64
      if (q.type == dnsw::T_A && q.answers.size() >= 2 && q.what.find("Malicious compression pointer detected in A record") != std::string::npos)
        sim::fail("c19-valid-response-rejected", "A record with address %s rejected as 'malicious compression pointer' (query %s, %s)", q.answers[1].addr.c_str(), q.name.c_str(), mutName[q.mut]);
      sim::fail("c19-valid-response-rejected", "query %s (%s, %zu records of type %u) failed: %s", q.name.c_str(), mutName[q.mut], q.answers.size(), q.type, q.what.c_str());
    }
    // exactly the records encoded
    auto& R = q.res;
    size_t n = q.answers.size();
    auto bad = [&](const char* what, size_t k) { sim::fail("c19-wrong-decoding", "query %s (%s): %s of record %zu differs from what was encoded", q.name.c_str(), mutName[q.mut], what, k); };
    switch (q.type)
    {
    case dnsw::T_A:
    {
      // (the typed lists collect the records of that type from all three sections: the glue A record counts)
      size_t extra = 0;
      for (auto& a : q.additional) if (a.type == dnsw::T_A) extra++;
      if (R.a_records.size() != n + extra) sim::fail("c19-wrong-decoding", "query %s (%s): %zu A records decoded, %zu encoded", q.name.c_str(), mutName[q.mut], R.a_records.size(), n + extra);
      if (R.answers.size() != n) sim::fail("c19-wrong-decoding", "query %s (%s): %zu answer records decoded, %zu encoded", q.name.c_str(), mutName[q.mut], R.answers.size(), n);
    }
      for (size_t k = 0; k < n; k++) { if (R.a_records[k].address != q.answers[k].addr) bad("address", k); if (R.a_records[k].ttl != q.answers[k].ttl) bad("TTL", k); if (!same_name(R.a_records[k].name, q.answers[k].name)) bad("owner name", k); }
      break;
    case dnsw::T_AAAA:
      if (R.aaaa_records.size() != n) sim::fail("c19-wrong-decoding", "query %s: %zu AAAA records decoded, %zu encoded", q.name.c_str(), R.aaaa_records.size(), n);
      for (size_t k = 0; k < n; k++)
      {
        in6_addr a{}, b{};
        inet_pton(AF_INET6, R.aaaa_records[k].address.c_str(), &a);
        inet_pton(AF_INET6, v6text(q.answers[k].addr).c_str(), &b);
        if (memcmp(&a, &b, 16) != 0) bad("address", k);
        if (R.aaaa_records[k].ttl != q.answers[k].ttl) bad("TTL", k);
      }
      break;
    case dnsw::T_SRV:
      if (R.srv_records.size() != n) sim::fail("c19-wrong-decoding", "query %s: %zu SRV records decoded, %zu encoded", q.name.c_str(), R.srv_records.size(), n);
      for (size_t k = 0; k < n; k++)
      {
        // (the resolver may sort SRV records: match by port, which is unique)
        const dnsw::Rec* e = nullptr;
        for (auto& a : q.answers) if (a.port == R.srv_records[k].port) e = &a;
        if (!e) bad("port", k);
        if (R.srv_records[k].priority != e->prio || R.srv_records[k].weight != e->weight) bad("priority/weight", k);
        if (!same_name(R.srv_records[k].target, e->target)) bad("target", k);
        if (R.srv_records[k].ttl != e->ttl) bad("TTL", k);
      }
      break;
    case dnsw::T_NAPTR:
      if (R.naptr_records.size() != n) sim::fail("c19-wrong-decoding", "query %s: %zu NAPTR records decoded, %zu encoded", q.name.c_str(), R.naptr_records.size(), n);
      for (size_t k = 0; k < n; k++)
      {
        const dnsw::Rec* e = nullptr;
        for (auto& a : q.answers) if (a.prio == R.naptr_records[k].order) e = &a;
        if (!e) bad("order", k);
        if (R.naptr_records[k].preference != e->weight) bad("preference", k);
        if (R.naptr_records[k].flags != e->flags || R.naptr_records[k].service != e->service || R.naptr_records[k].regexp != e->regexp) bad("flags/service/regexp", k);
        if (!same_name(R.naptr_records[k].replacement, e->target)) bad("replacement", k);
      }
      break;
    case dnsw::T_MX:
      if (R.mx_records.size() != n) sim::fail("c19-wrong-decoding", "query %s: %zu MX records decoded, %zu encoded", q.name.c_str(), R.mx_records.size(), n);
      for (size_t k = 0; k < n; k++)
      {
        const dnsw::Rec* e = nullptr;
        for (auto& a : q.answers) if (a.prio == R.mx_records[k].preference) e = &a;
        if (!e) bad("preference", k);
        if (!same_name(R.mx_records[k].exchange, e->target)) bad("exchange", k);
      }
      break;
    case dnsw::T_TXT:
      if (R.txt_records.size() != n) sim::fail("c19-wrong-decoding", "query %s: %zu TXT records decoded, %zu encoded", q.name.c_str(), R.txt_records.size(), n);
      for (size_t k = 0; k < n; k++) if (R.txt_records[k].text != q.answers[k].txt) bad("character strings", k);
      break;
    case dnsw::T_CNAME:
      if (R.cname_records.size() != n) sim::fail("c19-wrong-decoding", "query %s: %zu CNAME records decoded, %zu encoded", q.name.c_str(), R.cname_records.size(), n);
      if (!same_name(R.cname_records[0].cname, q.answers[0].target)) bad("canonical name", 0);
      break;
    case dnsw::T_PTR:
      if (R.ptr_records.size() != n) sim::fail("c19-wrong-decoding", "query %s: %zu PTR records decoded, %zu encoded", q.name.c_str(), R.ptr_records.size(), n);
      if (!same_name(R.ptr_records[0].ptrdname, q.answers[0].target)) bad("pointer name", 0);
      break;
    default: break;
    }
    if (R.authority.size() != q.authority.size() || R.additional.size() != q.additional.size())
      sim::fail("c19-wrong-decoding", "query %s (%s): %zu authority / %zu additional records decoded, %zu / %zu encoded", q.name.c_str(), mutName[q.mut], R.authority.size(), R.additional.size(), q.authority.size(),
                q.additional.size());
    if (q.mut == M_TC_THEN_TCP && q.tcpSeen == 0) sim::fail("c19-wrong-decoding", "query %s was answered although the UDP answer was truncated and no TCP query was made", q.name.c_str());
    exact++;
  }
  for (auto& q : plan) { std::string cn = std::string("c19.response.") + mutName[q.mut]; sim::count(cn.c_str(), 1); }
  sim::count("c19.net_queries", plan.size());
  sim::count("c19.net_exact_decodings", exact);
  sim::count("c19.net_rejected", rejected);
  sim::state_mix(exact * 131 + rejected * 7 + plan.size());
  sim::finish_ok();
}
