// C15: HTTP/1.1 message framing is exact, segmentation-independent and bounded.
// Modes: "server" (raw peers send generated request streams to a real HttpServer), "client" (a scripted raw server answers a real
// HttpClient). The simulated network cuts each stream at drawn / enumerated positions; hostile variants carry invalid length
// information, overflowing sizes or oversize headers.
#include "common.h"
#include "netpeer.h"
#include "httpgen.h"
#include "iora/core/logger.hpp"
#include "iora/network/http_client.hpp"
#include "iora/network/http_server.hpp"

#include <mutex>
#include <thread>

using namespace iora::network;

namespace
{
struct Seen { std::string method, path, body; std::map<std::string, std::string> x; int count = 0; };
struct ExpReq
{
  std::string token, method, path, body;
  std::map<std::string, std::string> x; // X-* headers, names lower-cased
  bool hostile = false;
  std::string hostileWhat;
};
struct ConnPlan
{
  std::string bytes;
  std::vector<ExpReq> reqs;
  std::vector<size_t> cuts; // ascending offsets where the stream is cut into separate writes
  bool oversize = false;
};
const char* mname(iora::network::HttpMethod m)
{
  switch (m)
  {
  case HttpMethod::GET: return "GET";
  case HttpMethod::POST: return "POST";
  case HttpMethod::PUT: return "PUT";
  case HttpMethod::DELETE: return "DELETE";
  case HttpMethod::HEAD: return "HEAD";
  case HttpMethod::OPTIONS: return "OPTIONS";
  case HttpMethod::PATCH: return "PATCH";
  default: return "?";
  }
}
std::string vary_case(const std::string& n, unsigned style)
{
  std::string s = n;
  if (style == 1) for (auto& c : s) c = (char)tolower((unsigned char)c);
  if (style == 2) for (auto& c : s) c = (char)toupper((unsigned char)c);
  return s;
}

// one request; returns wire bytes and fills `e`
std::string gen_request(uint64_t r, const std::string& token, ExpReq& e, bool allowBody, size_t maxBody)
{
  static const char* methods[] = {"GET", "POST", "PUT", "DELETE", "PATCH", "POST", "PUT"};
  e.token = token;
  e.method = methods[r % 7];
  e.path = "/t/" + token;
  unsigned style = (unsigned)((r >> 8) % 3);
  int framing = hgen::F_NONE;
  bool bodyMethod = e.method == "POST" || e.method == "PUT" || e.method == "PATCH";
  if (allowBody && bodyMethod) framing = ((r >> 12) % 3 == 0) ? hgen::F_CL : hgen::F_CHUNKED;
  size_t n = 0;
  if (framing != hgen::F_NONE)
  {
    static const size_t sizes[] = {0, 1, 2, 15, 16, 17, 255, 256, 1000};
    n = ((r >> 16) % 10 == 9) ? (size_t)((r >> 20) % (maxBody + 1)) : sizes[(r >> 16) % 9];
    n = std::min(n, maxBody);
    e.body = hgen::body_bytes(r ^ 0xB0D7, n, (r >> 40) % 4 != 0);
  }
  std::string w = e.method + " " + e.path + " HTTP/1.1\r\n";
  w += vary_case("Host", style) + ": verif.example\r\n";
  int nx = (int)((r >> 24) % 4);
  for (int i = 0; i < nx; i++)
  {
    std::string name = "X-Verif-" + std::to_string(i);
    std::string val = "v" + hx::hex(hx::keyed_bytes(r + (uint64_t)i, 3 + (size_t)((r >> (28 + i)) % 6)));
    e.x[hgen::lower(name)] = val;
    w += vary_case(name, style) + ((r >> 33) % 2 ? ":" : ": ") + val + ((r >> 34) % 3 == 0 ? " " : "") + "\r\n";
  }
  if (framing == hgen::F_CL) w += vary_case("Content-Length", style) + ": " + std::to_string(n) + "\r\n";
  if (framing == hgen::F_CHUNKED) w += vary_case("Transfer-Encoding", style) + ": " + ((r >> 35) % 2 ? "chunked" : "Chunked") + "\r\n";
  w += "\r\n";
  if (framing == hgen::F_CL) w += e.body;
  if (framing == hgen::F_CHUNKED)
  {
    hgen::ChunkOpts co;
    co.sizes = hgen::chunk_pattern(n, (unsigned)((r >> 36) % 6), r >> 3);
    co.upperHex = (r >> 41) % 2;
    co.leadingZeros = (int)((r >> 42) % 3);
    co.extensions = (r >> 44) % 3 == 0;
    co.trailers = (r >> 46) % 3 == 0;
    co.lastChunkZeros = 1 + (int)((r >> 48) % 3 == 0);
    w += hgen::encode_chunked(e.body, co);
  }
  return w;
}

// a request whose length information is invalid: must be rejected, never framed by guesswork
std::string gen_hostile(uint64_t r, const std::string& token, ExpReq& e)
{
  e.token = token;
  e.method = "POST";
  e.path = "/t/" + token;
  e.hostile = true;
  std::string head = "POST " + e.path + " HTTP/1.1\r\nHost: verif.example\r\n";
  std::string body = hgen::body_bytes(r, 12, true);
  static const char* badCl[] = {"12abc", "+12", "0x0c", "-12", "12 12", "1 2", "", "12;q=1", "１２", "18446744073709551628", "99999999999999999999999999", "12.0"};
  static const char* badChunk[] = {"zz", "-c", "0xc", "+c", "c g", "FFFFFFFFFFFFFFEC", "10000000000000000", "FFFFFFFFFFFFFFFF", "fffffffffffffff4", "8000000000000000"};
  switch (r % 4)
  {
  case 0: // conflicting Content-Length fields
    e.hostileWhat = "two Content-Length fields with different values (5 and 12)";
    return head + "Content-Length: 5\r\nContent-Length: 12\r\n\r\n" + body;
  case 1:
  {
    std::string v = badCl[(r >> 8) % 12];
    e.hostileWhat = "Content-Length: '" + v + "'";
    return head + "Content-Length: " + v + "\r\n\r\n" + body;
  }
  case 2:
  {
    std::string v = badChunk[(r >> 8) % 10];
    // in half of the cases ordinary chunks come first, so that the bad size meets a decoder that already holds data
    std::string lead;
    static const char* leads[] = {"", "", "2\r\nab\r\n", "10\r\n0123456789abcdef\r\n1\r\nz\r\n"};
    lead = leads[(r >> 16) % 4];
    e.hostileWhat = std::string("chunk size line '") + v + "'" + (lead.empty() ? "" : " after valid chunks");
    // the chunk data is followed by what looks like a proper terminator so that a guessing parser finds an end
    return head + "Transfer-Encoding: chunked\r\n\r\n" + lead + v + "\r\n" + body + "\r\n0\r\n\r\n";
  }
  default:
    e.hostileWhat = "conflicting Content-Length list '12, 5'";
    return head + "Content-Length: 12, 5\r\n\r\n" + body;
  }
}
} // namespace

extern "C" HarnessInfo harness_info() { return {"c15_http", "C15", 40}; }

static void run_server_mode();
static void run_client_mode();

extern "C" void harness_run()
{
  iora::core::Logger::setLevel(iora::core::Logger::Level::Fatal);
  if (std::string(sim::mode()) == "client") run_client_mode();
  else run_server_mode();
}

// =====================================================================================================================
static void run_server_mode()
{
  bool th = hx::thorough();
  // ---- plan
  int kind = (int)sim::draw(8); // 0-3 few connections with drawn segmentation, 4-5 single-cut sweep of one stream, 6 one-byte writes, 7 oversize
  std::vector<ConnPlan> plan;
  uint64_t base = sim::draw(1ull << 40);
  size_t maxBody = th ? 6000 : 1500;
  auto make_conn = [&](int ci, uint64_t seedr, int nreq, bool hostileTail, bool small)
  {
    ConnPlan c;
    for (int i = 0; i < nreq; i++)
    {
      ExpReq e;
      char tok[32];
      snprintf(tok, sizeof tok, "c%03dr%d", ci, i);
      uint64_t r = seedr * 0x9E3779B97F4A7C15ull + (uint64_t)i * 0xD1B54A32D192ED03ull;
      r ^= r >> 31;
      if (hostileTail && i + 1 == nreq) c.bytes += gen_hostile(r, tok, e);
      else c.bytes += gen_request(r, tok, e, true, small ? 40 : maxBody);
      c.reqs.push_back(e);
    }
    return c;
  };
  if (kind <= 3)
  {
    int nconn = 1 + (int)sim::draw(3);
    for (int ci = 0; ci < nconn; ci++)
    {
      int nreq = 1 + (int)sim::draw(4);
      bool hostile = sim::draw(3) == 2;
      ConnPlan c = make_conn(ci, base + (uint64_t)ci * 977, nreq, hostile, false);
      // segmentation
      size_t L = c.bytes.size();
      switch (sim::draw(5))
      {
      case 0: break;
      case 1: if (L > 1) c.cuts.push_back(1 + sim::draw(L - 1)); break;
      case 2: { size_t ncut = 1 + L / 40; for (size_t k = 0; k < ncut && L > 1; k++) c.cuts.push_back(1 + sim::draw(L - 1)); break; }
      case 3: // around every CRLF
        for (size_t p = c.bytes.find("\r\n"); p != std::string::npos && c.cuts.size() < 200; p = c.bytes.find("\r\n", p + 2)) { c.cuts.push_back(p + 1); if (sim::draw(2)) c.cuts.push_back(p + 2); }
        break;
      default: { size_t step = 2 + sim::draw(30); for (size_t p = step; p < L; p += step) c.cuts.push_back(p); break; }
      }
      plan.push_back(c);
    }
  }
  else if (kind <= 5)
  {
    // every single cut point of one small stream, each on a fresh connection (identical bytes apart from the fixed-width token)
    int nreq = 1 + (int)sim::draw(3);
    bool hostile = sim::draw(4) == 3;
    ConnPlan proto = make_conn(0, base, nreq, hostile, true);
    size_t L = proto.bytes.size();
    size_t maxConns = th ? 700 : 48;
    size_t stride = std::max<size_t>(1, L / maxConns);
    size_t off = stride > 1 ? sim::draw(stride) : 0;
    int ci = 0;
    for (size_t k = 1 + off; k < L; k += stride, ci++)
    {
      ConnPlan c = make_conn(ci, base, nreq, hostile, true);
      c.cuts.push_back(k);
      plan.push_back(c);
    }
  }
  else if (kind == 6)
  {
    ConnPlan c = make_conn(0, base, 1 + (int)sim::draw(3), sim::draw(3) == 2, true);
    for (size_t p = 1; p < c.bytes.size(); p++) c.cuts.push_back(p);
    plan.push_back(c);
  }
  else
  {
    // oversize: a header block that never ends / a huge declared body that keeps coming
    ConnPlan c;
    c.oversize = true;
    ExpReq e;
    e.token = "c000r0";
    e.hostile = true;
    e.method = "POST";
    e.path = "/t/c000r0";
    if (sim::draw(2))
    {
      e.hostileWhat = "2 MiB of header fields without an end";
      c.bytes = "POST /t/c000r0 HTTP/1.1\r\nHost: verif.example\r\n";
      std::string fill = "X-Fill: " + std::string(1000, 'a') + "\r\n";
      while (c.bytes.size() < 2u * 1024 * 1024) c.bytes += fill;
    }
    else
    {
      e.hostileWhat = "chunked body of 2 MiB that never terminates";
      c.bytes = "POST /t/c000r0 HTTP/1.1\r\nHost: verif.example\r\nTransfer-Encoding: chunked\r\n\r\n";
      std::string chunk = "3e8\r\n" + std::string(1000, 'b') + "\r\n";
      while (c.bytes.size() < 2u * 1024 * 1024) c.bytes += chunk;
    }
    c.reqs.push_back(e);
    for (size_t p = 32768; p < c.bytes.size(); p += 32768) c.cuts.push_back(p);
    plan.push_back(c);
  }
  for (auto& c : plan) { std::sort(c.cuts.begin(), c.cuts.end()); c.cuts.erase(std::unique(c.cuts.begin(), c.cuts.end()), c.cuts.end()); }
  {
    size_t nh = 0, nr = 0;
    for (auto& c : plan) for (auto& e : c.reqs) { nr++; nh += e.hostile; }
    sim::notef("server mode kind=%d connections=%zu requests=%zu hostile=%zu", kind, plan.size(), nr, nh);
    auto& c0 = plan[0];
    std::string l = "conn 0: " + std::to_string(c0.bytes.size()) + " bytes, " + std::to_string(c0.cuts.size()) + " cuts;";
    for (auto& e : c0.reqs) l += " [" + e.method + " " + e.path + " body=" + std::to_string(e.body.size()) + (e.hostile ? " HOSTILE: " + e.hostileWhat : "") + "]";
    sim::notef("%s", l.c_str());
    std::string shown = c0.bytes.substr(0, 360);
    for (auto& ch : shown) if (ch == '\r') ch = '~'; else if (ch == '\n') ch = '|'; else if ((unsigned char)ch < 32 || (unsigned char)ch > 126) ch = '.';
    sim::notef("conn 0 stream: %s%s", shown.c_str(), c0.bytes.size() > 360 ? "..." : "");
  }
  sim::net::NetConfig nc;
  static const uint64_t lats[] = {50000, 1000, 300000};
  nc.latency_ns = lats[sim::draw(3)];
  nc.jitter_ns = sim::draw(2) ? nc.latency_ns / 2 : 0;
  static const unsigned sr[] = {0, 0, 200};
  nc.short_read_permille = sr[sim::draw(3)];
  nc.tap = true;
  uint64_t gapNs = nc.latency_ns * 2 + 100000;
  hx::SchedOpts so;
  so.stall_max_ns = 2000000;
  sim::Config cfg = hx::draw_sched(so);
  cfg.max_steps = 8000000;
  sim::begin(cfg);
  sim::net::configure(nc);

  // ---- the server
  std::mutex mx;
  std::map<std::string, Seen> seen;
  HttpServer* srv = new HttpServer("127.0.0.1", 8080);
  srv->setDefaultHandler([&](const HttpServer::Request& rq, HttpServer::Response& rs)
  {
    std::lock_guard<std::mutex> g(mx);
    std::string tok = rq.path.size() > 3 ? rq.path.substr(3) : rq.path;
    Seen& s = seen[tok];
    s.count++;
    s.method = mname(rq.method);
    s.path = rq.path;
    s.body = rq.body;
    for (auto& h : rq.headers) { std::string n = hgen::lower(h.first); if (n.compare(0, 8, "x-verif-") == 0) s.x[n] = h.second; }
    rs.set_content("ok " + tok, "text/plain");
  });
  srv->start();

  // ---- the peer: one connection after the other
  size_t hostileRejected = 0, validServed = 0;
  for (size_t ci = 0; ci < plan.size(); ci++)
  {
    ConnPlan& c = plan[ci];
    int fd = peer::connect_to("127.0.0.1", 8080, 2000000000ull);
    if (fd < 0) sim::fail("harness", "connect to the server failed");
    peer::set_sndtimeo(fd, 5000000000ull);
    size_t from = 0;
    bool sendFailed = false;
    std::vector<size_t> cuts = c.cuts;
    cuts.push_back(c.bytes.size());
    for (size_t k : cuts)
    {
      if (k <= from) continue;
      if (!peer::write_all(fd, c.bytes.substr(from, k - from))) { sendFailed = true; break; }
      from = k;
      if (k < c.bytes.size()) sim::sleep_ns(gapNs);
    }
    // read what comes back until every request is accounted for, the server closes, or the liveness bound passes
    std::string in;
    bool closed = sendFailed;
    uint64_t t0 = sim::now();
    size_t want = c.reqs.size();
    while (!closed && sim::now() - t0 < 30000000000ull)
    {
      // count complete responses so far
      size_t pos = 0, got = 0;
      while (pos < in.size()) { auto r = hgen::ref_parse_response(in, pos, false, false); if (!r.complete) break; pos = r.end; got++; }
      if (got >= want) break;
      int rr = peer::read_some(fd, in, 65536, 1000000000ull);
      if (rr == 0 || rr == -1) closed = true;
    }
    if (sendFailed) { std::string tmp; for (int i = 0; i < 4; i++) if (peer::read_some(fd, tmp, 65536, 100000000ull) <= 0) break; in += tmp; }
    ::close(fd);
    // give workers a moment to finish handlers that were dispatched
    sim::sleep_ns(2000000);
    // ---- oracle for this connection
    std::vector<hgen::RefResponse> resp;
    for (size_t pos = 0; pos < in.size();) { auto r = hgen::ref_parse_response(in, pos, false, closed); if (!r.complete) break; pos = r.end; resp.push_back(r); }
    std::lock_guard<std::mutex> g(mx);
    for (size_t i = 0; i < c.reqs.size(); i++)
    {
      ExpReq& e = c.reqs[i];
      auto it = seen.find(e.token);
      if (e.hostile)
      {
        if (it != seen.end())
          sim::fail("c15-framed-by-guesswork", "a request with invalid length information (%s) was handed to the application (body of %zu bytes) instead of being rejected", e.hostileWhat.c_str(),
                    it->second.body.size());
        bool errorStatus = false;
        for (auto& r : resp) if (r.status >= 400) errorStatus = true;
        if (!errorStatus && !closed)
          sim::fail("c15-not-rejected", "a request with invalid length information (%s) got neither an error status nor a closed connection within 30 s (connection left waiting)", e.hostileWhat.c_str());
        if (c.oversize && !closed)
          sim::fail("c15-unbounded-buffer", "%s were accepted without the connection being closed", e.hostileWhat.c_str());
        hostileRejected++;
        { std::string cn = "c15.hostile_rejected." + e.hostileWhat.substr(0, e.hostileWhat.find('\'')); sim::count(cn.c_str(), 1); }
        continue;
      }
      // a valid request that precedes a hostile one on the same connection must still be framed exactly
      if (it == seen.end())
      {
        bool anyHostile = false;
        for (auto& q : c.reqs) anyHostile |= q.hostile;
        if (anyHostile) continue; // the rejection may legitimately have torn the connection down before this request was dispatched
        sim::fail("c15-request-lost", "connection %zu (%zu cuts, first at %zu): request %s %s (body %zu bytes) never reached the application", ci, c.cuts.size(), c.cuts.empty() ? 0 : c.cuts[0], e.method.c_str(),
                  e.path.c_str(), e.body.size());
      }
      Seen& s = it->second;
      if (s.count != 1) sim::fail("c15-request-duplicated", "request %s was handed to the application %d times", e.path.c_str(), s.count);
      if (s.method != e.method || s.path != e.path) sim::fail("c15-wrong-request-line", "sent '%s %s', the application saw '%s %s'", e.method.c_str(), e.path.c_str(), s.method.c_str(), s.path.c_str());
      if (s.body != e.body)
      {
        size_t d = 0;
        while (d < s.body.size() && d < e.body.size() && s.body[d] == e.body[d]) d++;
        sim::fail("c15-wrong-body", "connection %zu (%zu cuts, first at %zu): body of %s %s differs from the %zu bytes encoded: the application saw %zu bytes, first difference at offset %zu (saw '%s')", ci, c.cuts.size(),
                  c.cuts.empty() ? 0 : c.cuts[0], e.method.c_str(), e.path.c_str(), e.body.size(), s.body.size(), d, hx::hex(s.body.substr(d, 12)).c_str());
      }
      if (s.x != e.x)
      {
        std::string a, b;
        for (auto& h : e.x) a += h.first + "=" + h.second + ";";
        for (auto& h : s.x) b += h.first + "=" + h.second + ";";
        sim::fail("c15-wrong-headers", "header fields of %s differ: sent {%s}, the application saw {%s}", e.path.c_str(), a.c_str(), b.c_str());
      }
      validServed++;
    }
  }
  // ---- liveness afterwards: the I/O thread is alive and serves a fresh connection
  {
    int fd = peer::connect_to("127.0.0.1", 8080, 2000000000ull);
    if (fd < 0) sim::fail("c15-server-dead", "the server no longer accepts connections after the streams");
    peer::write_all(fd, "GET /t/final HTTP/1.1\r\nHost: verif.example\r\n\r\n");
    std::string in;
    uint64_t t0 = sim::now();
    bool ok = false;
    while (sim::now() - t0 < 10000000000ull)
    {
      int rr = peer::read_some(fd, in, 4096, 1000000000ull);
      auto r = hgen::ref_parse_response(in, 0, false, false);
      if (r.complete) { ok = r.status == 200; break; }
      if (rr == 0 || rr == -1) break;
    }
    ::close(fd);
    if (!ok) sim::fail("c15-server-dead", "a valid request on a fresh connection was not served after the streams (got '%s')", in.substr(0, 40).c_str());
  }
  srv->stop();
  delete srv;
  sim::count("c15.connections", plan.size());
  sim::count("c15.valid_requests_exact", validServed);
  sim::count("c15.hostile_rejected", hostileRejected);
  sim::state_mix(validServed * 131 + hostileRejected * 7 + (uint64_t)kind);
  sim::finish_ok();
}

// =====================================================================================================================
namespace
{
struct RespPlan
{
  std::string method;   // the request the client makes
  std::string reqBody;
  std::string bytes;    // what the server writes
  std::vector<size_t> cuts;
  bool closeAfter = false;
  bool hostile = false;
  std::string hostileWhat;
  int status = 0;
  std::string body;     // what the client must hand back
  std::map<std::string, std::string> x;
};
RespPlan gen_response(uint64_t r, int idx, size_t maxBody, bool hostile)
{
  RespPlan p;
  static const char* methods[] = {"GET", "GET", "POST", "HEAD", "GET", "DELETE"};
  p.method = methods[r % 6];
  if (p.method == "POST") p.reqBody = hgen::body_bytes(r ^ 0x77, 1 + (r >> 50) % 40, true);
  static const int statuses[] = {200, 200, 200, 201, 404, 500, 204, 304, 200, 200};
  p.status = hostile ? 200 : statuses[(r >> 4) % 10];
  if (hostile) p.method = "GET";
  bool noBody = p.method == "HEAD" || p.status == 204 || p.status == 304;
  unsigned style = (unsigned)((r >> 8) % 3);
  int framing = (int)((r >> 12) % 3) == 0 ? hgen::F_CL : ((r >> 12) % 3 == 1 ? hgen::F_CHUNKED : hgen::F_CLOSE);
  static const size_t sizes[] = {0, 1, 2, 15, 16, 17, 255, 256, 1000};
  size_t n = ((r >> 16) % 10 == 9) ? (size_t)((r >> 20) % (maxBody + 1)) : sizes[(r >> 16) % 9];
  n = std::min(n, maxBody);
  std::string body = hgen::body_bytes(r ^ 0xB0D7, n, (r >> 40) % 4 != 0);
  std::string w;
  // interim responses first
  if ((r >> 52) % 5 == 0) w += "HTTP/1.1 100 Continue\r\n\r\n";
  if ((r >> 54) % 7 == 0) w += "HTTP/1.1 103 Early Hints\r\nLink: </x.css>; rel=preload\r\n\r\n";
  static const char* texts[] = {"OK", "Whatever Text", ""};
  size_t finalStatusLine = w.size();
  w += "HTTP/1.1 " + std::to_string(p.status) + " " + texts[(r >> 56) % 3] + "\r\n";
  int nx = (int)((r >> 24) % 4);
  for (int i = 0; i < nx; i++)
  {
    std::string name = "X-Verif-" + std::to_string(i);
    std::string val = "v" + hx::hex(hx::keyed_bytes(r + (uint64_t)i, 3 + (size_t)((r >> (28 + i)) % 6)));
    p.x[hgen::lower(name)] = val;
    w += vary_case(name, style) + ((r >> 33) % 2 ? ":" : ": ") + val + "\r\n";
  }
  w += "X-Index: " + std::to_string(idx) + "\r\n";
  if (hostile)
  {
    p.hostile = true;
    p.method = "GET";
    p.reqBody.clear();
    p.status = 200;
    p.closeAfter = true;
    std::string b12 = hgen::body_bytes(r, 12, true);
    static const char* badCl[] = {"12abc", "+12", "0x0c", "-12", "12 12", "", "12;q=1", "18446744073709551628", "99999999999999999999999999", "12.0"};
    static const char* badChunk[] = {"zz", "-c", "0xc", "+c", "c g", "FFFFFFFFFFFFFFEC", "10000000000000000", "FFFFFFFFFFFFFFFF", "fffffffffffffff4", ""};
    switch ((r >> 58) % 5)
    {
    case 0: p.hostileWhat = "two Content-Length fields (5 and 12)"; w += "Content-Length: 5\r\nContent-Length: 12\r\n\r\n" + b12; break;
    case 1: { std::string v = badCl[(r >> 8) % 10]; p.hostileWhat = "Content-Length: '" + v + "'"; w += "Content-Length: " + v + "\r\n\r\n" + b12; break; }
    case 2:
    {
      std::string v = badChunk[(r >> 8) % 10];
      static const char* leads[] = {"", "", "2\r\nab\r\n", "10\r\n0123456789abcdef\r\n1\r\nz\r\n"};
      std::string lead = leads[(r >> 16) % 4];
      p.hostileWhat = "chunk size line '" + v + "'" + (lead.empty() ? "" : " after valid chunks");
      w += "Transfer-Encoding: chunked\r\n\r\n" + lead + v + "\r\n" + b12 + "\r\n0\r\n\r\n";
      break;
    }
    case 3: p.hostileWhat = "Content-Length list '12, 5'"; w += "Content-Length: 12, 5\r\n\r\n" + b12; break;
    default: p.hostileWhat = "chunk data not followed by CRLF"; w += "Transfer-Encoding: chunked\r\n\r\nc\r\n" + b12 + "XX0\r\n\r\n"; break;
    }
    p.bytes = w;
    return p;
  }
  if (noBody)
  {
    // a HEAD / 304 response may still carry the length of the representation; 204 must not
    if (p.status != 204 && (r >> 60) % 2) w += "Content-Length: " + std::to_string(n) + "\r\n";
    w += "\r\n";
    p.body.clear();
  }
  else if (framing == hgen::F_CL)
  {
    w += vary_case("Content-Length", style) + ": " + std::to_string(n) + "\r\n";
    if ((r >> 61) % 4 == 0) w += "Content-Length: " + std::to_string(n) + "\r\n"; // identical duplicate is valid
    w += "\r\n" + body;
    p.body = body;
  }
  else if (framing == hgen::F_CHUNKED)
  {
    w += vary_case("Transfer-Encoding", style) + ": chunked\r\n\r\n";
    hgen::ChunkOpts co;
    co.sizes = hgen::chunk_pattern(n, (unsigned)((r >> 36) % 6), r >> 3);
    co.upperHex = (r >> 41) % 2;
    co.leadingZeros = (int)((r >> 42) % 3);
    co.extensions = (r >> 44) % 3 == 0;
    co.trailers = (r >> 46) % 3 == 0;
    co.lastChunkZeros = 1 + (int)((r >> 48) % 3 == 0);
    w += hgen::encode_chunked(body, co);
    p.body = body;
  }
  else
  {
    w += "\r\n" + body; // close-delimited
    p.body = body;
    p.closeAfter = true;
  }
  if (!p.closeAfter && (r >> 62) % 4 == 0) { p.closeAfter = true; w.insert(w.find("\r\n", finalStatusLine) + 2, "Connection: close\r\n"); }
  p.bytes = w;
  return p;
}
} // namespace

static void run_client_mode()
{
  bool th = hx::thorough();
  int nreq = 1 + (int)sim::draw(4);
  uint64_t base = sim::draw(1ull << 40);
  size_t maxBody = th ? 6000 : 1500;
  int sweep = sim::draw(4) == 3; // all single cuts of one small response, one request each
  std::vector<RespPlan> plan;
  if (!sweep)
  {
    for (int i = 0; i < nreq; i++)
    {
      uint64_t r = (base + (uint64_t)i * 7919) * 0x9E3779B97F4A7C15ull;
      r ^= r >> 29;
      bool hostile = sim::draw(4) == 3;
      RespPlan p = gen_response(r, i, maxBody, hostile);
      size_t L = p.bytes.size();
      switch (sim::draw(5))
      {
      case 0: break;
      case 1: if (L > 1) p.cuts.push_back(1 + sim::draw(L - 1)); break;
      case 2: { size_t ncut = 1 + L / 40; for (size_t k = 0; k < ncut && L > 1; k++) p.cuts.push_back(1 + sim::draw(L - 1)); break; }
      case 3: for (size_t q = p.bytes.find("\r\n"); q != std::string::npos && p.cuts.size() < 200; q = p.bytes.find("\r\n", q + 2)) { p.cuts.push_back(q + 1); if (sim::draw(2)) p.cuts.push_back(q + 2); } break;
      default: { size_t step = 1 + sim::draw(30); for (size_t q = step; q < L; q += step) p.cuts.push_back(q); break; }
      }
      plan.push_back(p);
    }
  }
  else
  {
    uint64_t r = base * 0x9E3779B97F4A7C15ull;
    r ^= r >> 29;
    bool hostile = sim::draw(5) == 4;
    RespPlan proto = gen_response(r, 0, 40, hostile);
    size_t L = proto.bytes.size();
    size_t maxReq = th ? 500 : 40;
    size_t stride = std::max<size_t>(1, L / maxReq);
    size_t off = stride > 1 ? sim::draw(stride) : 0;
    for (size_t k = 1 + off; k < L; k += stride) { RespPlan p = proto; p.cuts.push_back(k); plan.push_back(p); }
  }
  for (auto& p : plan) { std::sort(p.cuts.begin(), p.cuts.end()); p.cuts.erase(std::unique(p.cuts.begin(), p.cuts.end()), p.cuts.end()); }
  {
    sim::notef("client mode %s requests=%zu", sweep ? "single-cut sweep" : "drawn", plan.size());
    auto& p0 = plan[0];
    std::string shown = p0.bytes.substr(0, 300);
    for (auto& ch : shown) if (ch == '\r') ch = '~'; else if (ch == '\n') ch = '|'; else if ((unsigned char)ch < 32 || (unsigned char)ch > 126) ch = '.';
    sim::notef("request 0: %s -> %zu response bytes, %zu cuts, body %zu%s%s: %s%s", p0.method.c_str(), p0.bytes.size(), p0.cuts.size(), p0.body.size(), p0.closeAfter ? ", then close" : "",
               p0.hostile ? (" HOSTILE: " + p0.hostileWhat).c_str() : "", shown.c_str(), p0.bytes.size() > 300 ? "..." : "");
  }
  sim::net::NetConfig nc;
  static const uint64_t lats[] = {50000, 1000, 300000};
  nc.latency_ns = lats[sim::draw(3)];
  nc.jitter_ns = sim::draw(2) ? nc.latency_ns / 2 : 0;
  static const unsigned sr[] = {0, 0, 200};
  nc.short_read_permille = sr[sim::draw(3)];
  uint64_t gapNs = nc.latency_ns * 2 + 100000;
  hx::SchedOpts so;
  so.stall_max_ns = 2000000;
  sim::Config cfg = hx::draw_sched(so);
  cfg.max_steps = 8000000;
  sim::begin(cfg);
  sim::net::configure(nc);

  // ---- scripted server
  int lfd = peer::listen_on("10.0.0.2", 8080);
  if (lfd < 0) sim::fail("harness", "listen failed");
  std::atomic<bool> stop{false};
  std::atomic<size_t> next{0};
  std::thread server([&]
  {
    sim::name_thread("http-peer");
    while (!stop.load())
    {
      int c = peer::accept_one(lfd, 20000000);
      if (c < 0) continue;
      std::string in;
      for (;;)
      {
        // read one request (header block + Content-Length body)
        size_t he;
        bool gone = false;
        while ((he = in.find("\r\n\r\n")) == std::string::npos)
        {
          if (stop.load()) { gone = true; break; }
          int rr = peer::read_some(c, in, 4096, 20000000);
          if (rr == 0 || rr == -1) { gone = true; break; }
        }
        if (gone) break;
        size_t need = 0;
        std::string head = hgen::lower(in.substr(0, he));
        size_t clp = head.find("content-length:");
        if (clp != std::string::npos) need = (size_t)atoi(head.c_str() + clp + 15);
        while (in.size() < he + 4 + need)
        {
          int rr = peer::read_some(c, in, 4096, 20000000);
          if (rr == 0 || rr == -1) { gone = true; break; }
          if (stop.load()) { gone = true; break; }
        }
        if (gone) break;
        in.erase(0, he + 4 + need);
        size_t i = next.fetch_add(1);
        if (i >= plan.size()) break;
        RespPlan& p = plan[i];
        size_t from = 0;
        std::vector<size_t> cuts = p.cuts;
        cuts.push_back(p.bytes.size());
        bool bad = false;
        for (size_t k : cuts)
        {
          if (k <= from) continue;
          if (!peer::write_all(c, p.bytes.substr(from, k - from))) { bad = true; break; }
          from = k;
          if (k < p.bytes.size()) sim::sleep_ns(gapNs);
        }
        if (bad || p.closeAfter) break;
      }
      ::close(c);
    }
  });

  // ---- the client
  size_t exact = 0, rejected = 0;
  {
    HttpClient::Config hc;
    hc.connectTimeout = std::chrono::milliseconds(2000);
    hc.requestTimeout = std::chrono::milliseconds(3000);
    hc.maxResponseBytes = 64 * 1024;
    hc.jsonConfig.maxPayloadSize = 64 * 1024;
    HttpClient client(hc);
    for (size_t i = 0; i < plan.size(); i++)
    {
      RespPlan& p = plan[i];
      std::string url = "http://10.0.0.2:8080/r/" + std::to_string(i);
      bool threw = false;
      std::string what;
      HttpClient::Response r;
      uint64_t t0 = sim::now();
      try
      {
        if (p.method == "GET") r = client.get(url);
        else if (p.method == "HEAD") r = client.head(url);
        else if (p.method == "POST") r = client.post(url, p.reqBody, {{"Content-Type", "text/plain"}});
        else r = client.deleteRequest(url);
      }
      catch (const std::exception& e) { threw = true; what = e.what(); }
      uint64_t took = sim::now() - t0;
      if (took > 20000000000ull) sim::fail("c15-client-stuck", "request %zu took %.1f s of simulated time", i, took / 1e9);
      if (next.load() <= i) next.store(i + 1); // the request never reached the peer (should not happen)
      if (p.hostile)
      {
        if (!threw) sim::fail("c15-framed-by-guesswork", "client: a response with invalid length information (%s) was returned to the caller (status %d, body of %zu bytes) instead of being rejected", p.hostileWhat.c_str(),
                              r.statusCode, r.body.size());
        rejected++;
        continue;
      }
      if (threw) sim::fail("c15-valid-response-rejected", "client: request %zu (%s, %zu cuts, first at %zu): a valid response (%d, body %zu, %s) was not returned: %s", i, p.method.c_str(), p.cuts.size(),
                           p.cuts.empty() ? 0 : p.cuts[0], p.status, p.body.size(), p.closeAfter ? "then close" : "keep-alive", what.c_str());
      if (r.statusCode != p.status) sim::fail("c15-wrong-status", "client: request %zu: status %d was sent, the caller got %d", i, p.status, r.statusCode);
      if (r.body != p.body)
      {
        size_t d = 0;
        while (d < r.body.size() && d < p.body.size() && r.body[d] == p.body[d]) d++;
        sim::fail("c15-wrong-body", "client: request %zu (%s, status %d, %zu cuts, first at %zu): body differs from the %zu bytes encoded: the caller got %zu bytes, first difference at offset %zu", i, p.method.c_str(), p.status,
                  p.cuts.size(), p.cuts.empty() ? 0 : p.cuts[0], p.body.size(), r.body.size(), d);
      }
      std::map<std::string, std::string> gotx;
      for (auto& h : r.headers) { std::string n = hgen::lower(h.first); if (n.compare(0, 8, "x-verif-") == 0) gotx[n] = h.second; }
      if (gotx != p.x) sim::fail("c15-wrong-headers", "client: request %zu: X-Verif header fields differ from those sent", i);
      auto xi = r.headers.find("X-Index");
      if (xi == r.headers.end() || xi->second != std::to_string(sweep ? 0 : (int)i)) sim::fail("c15-wrong-response", "client: request %zu got the response of another exchange", i);
      exact++;
    }
  }
  stop.store(true);
  server.join();
  ::close(lfd);
  sim::count("c15.client_responses_exact", exact);
  sim::count("c15.client_hostile_rejected", rejected);
  sim::state_mix(exact * 131 + rejected * 7);
  sim::finish_ok();
}
