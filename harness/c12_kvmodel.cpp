// C12: iora::storage::KVStore against a reference map with per-key absolute expiry, on the simulated clocks.
// Mode "seq": one thread, time frozen inside operations (so "the moment of the read" is one instant for store and model),
// wall-clock advances drawn to land just before / exactly on / just after every pending expiry, with and without letting the
// eviction machinery run, compaction, clean close + reopen. Mode "conc": readers/writers racing the wheel and eviction worker.
#include "common.h"
#include "iora/core/logger.hpp"
#include "iora/storage/kvstore.hpp"

#include <atomic>
#include <map>
#include <mutex>
#include <optional>
#include <sys/stat.h>
#include <thread>
#include <vector>

using namespace iora::storage;
typedef std::vector<std::uint8_t> Bytes;

namespace
{
struct MEntry { Bytes v; int64_t exp_ms = INT64_MAX; }; // INT64_MAX = no expiry
typedef std::map<std::string, MEntry> Model;
const char* KEYS[] = {"a", "ab", "b", std::string("k\0z", 3).c_str(), "zz", "abc"};
std::vector<std::string> g_keys;
Bytes mkval(uint64_t id, size_t n)
{
  Bytes v(n);
  for (size_t i = 0; i < n; i++) v[i] = hx::keyed(id, i);
  return v;
}
bool visible(const Model& m, const std::string& k, int64_t now_ms)
{
  auto it = m.find(k);
  return it != m.end() && it->second.exp_ms > now_ms;
}
void purge(Model& m, int64_t now_ms)
{
  for (auto it = m.begin(); it != m.end();) { if (it->second.exp_ms <= now_ms) it = m.erase(it); else ++it; }
}
enum OpK { SET, SET_TTL, BATCH, BATCH_TTL, REMOVE, REMOVE_PREFIX, CLEAR, EXPIRE_AT, PERSIST, COMPACT, REOPEN, SLEEP, WALLJUMP, NOPK };
const char* opn[] = {"set", "set-ttl", "setBatch", "setBatch-ttl", "remove", "removeWithPrefix", "clear", "expireAt", "persist", "compact", "close+reopen", "sleep", "wall-jump"};
struct Op { int k; std::string key; Bytes val; std::vector<std::pair<std::string, Bytes>> batch; int64_t ttl_s = 0; int64_t delta_ms = 0; int adv = 0; };
std::string pk(const std::string& k) { std::string s; for (char c : k) s += c ? c : '0'; return s; }

void compare_all(KVStore& s, Model& m, const char* after, int step)
{
  int64_t now = (int64_t)sim::wall_ms();
  // every read path against the model at this instant
  std::vector<std::string> want;
  for (auto& kv : m) if (kv.second.exp_ms > now) want.push_back(kv.first);
  auto ks = s.keys();
  std::sort(ks.begin(), ks.end());
  if (ks != want)
  {
    std::string a, b;
    for (auto& k : ks) a += pk(k) + " ";
    for (auto& k : want) b += pk(k) + " ";
    sim::fail("c12-keys", "step %d after %s: keys() = {%s} but the reference map holds {%s} at wall time +%lld ms", step, after, a.c_str(), b.c_str(),
              (long long)(now - (int64_t)sim::EPOCH_BASE_S * 1000));
  }
  if (s.size() != want.size()) sim::fail("c12-size", "step %d after %s: size() = %zu, reference %zu", step, after, s.size(), want.size());
  std::vector<std::string> all(g_keys.begin(), g_keys.end());
  auto gb = s.getBatch(all);
  for (auto& k : g_keys)
  {
    bool vis = visible(m, k, now);
    auto g = s.get(k);
    if (g.has_value() != vis)
    {
      auto it = m.find(k);
      sim::fail(vis ? "c12-get-missing" : "c12-expired-visible", "step %d after %s: get('%s') %s but the reference map says %s (expiry %+lld ms relative to now)", step, after, pk(k).c_str(),
                g ? "returned a value" : "returned nothing", vis ? "present" : (it == m.end() ? "absent" : "expired"), it == m.end() ? 0ll : (long long)(it->second.exp_ms == INT64_MAX ? 0 : it->second.exp_ms - now));
    }
    if (vis && *g != m[k].v) sim::fail("c12-value", "step %d after %s: get('%s') returned %zu bytes that differ from the %zu bytes last written", step, after, pk(k).c_str(), g->size(), m[k].v.size());
    if (s.exists(k) != vis) sim::fail("c12-exists", "step %d after %s: exists('%s') = %d, reference %d", step, after, pk(k).c_str(), !vis, vis);
    if ((gb.count(k) != 0) != vis) sim::fail("c12-getbatch", "step %d after %s: getBatch %s '%s', reference says %s", step, after, gb.count(k) ? "returned" : "omitted", pk(k).c_str(), vis ? "present" : "absent");
    if (vis && gb[k] != m[k].v) sim::fail("c12-value", "step %d after %s: getBatch value of '%s' differs", step, after, pk(k).c_str());
    auto t = s.ttl(k);
    std::optional<int64_t> wt;
    if (vis && m[k].exp_ms != INT64_MAX) wt = (m[k].exp_ms - now) / 1000;
    if (t.has_value() != wt.has_value() || (t && t->count() != *wt))
      sim::fail("c12-ttl", "step %d after %s: ttl('%s') = %s, reference %s", step, after, pk(k).c_str(), t ? std::to_string(t->count()).c_str() : "none", wt ? std::to_string(*wt).c_str() : "none");
  }
  for (const char* pfx : {"a", "ab", "z", ""})
  {
    auto kp = s.keysWithPrefix(pfx);
    std::sort(kp.begin(), kp.end());
    std::vector<std::string> wp;
    for (auto& k : want) if (k.compare(0, strlen(pfx), pfx) == 0) wp.push_back(k);
    if (kp != wp) sim::fail("c12-prefix", "step %d after %s: keysWithPrefix('%s') returned %zu keys, reference %zu", step, after, pfx, kp.size(), wp.size());
  }
}
} // namespace

extern "C" HarnessInfo harness_info() { return {"c12_kvmodel", "C12", 40}; }

static void run_conc(bool th);

extern "C" void harness_run()
{
  iora::core::Logger::setLevel(iora::core::Logger::Level::Fatal);
  bool th = hx::thorough();
  g_keys = {"a", "ab", "b", std::string("k\0z", 3), "zz", "abc"};
  if (std::string(sim::mode()) == "conc") { run_conc(th); return; }
  // ---- plan
  int nkeys = 2 + (int)sim::draw(5);
  g_keys.resize((size_t)nkeys);
  KVStoreConfig kc;
  kc.enableBackgroundCompaction = false;
  static const uint32_t logMax[] = {10u * 1024 * 1024, 200, 2000};
  kc.maxLogSizeBytes = logMax[sim::draw(3)];
  kc.maxCacheSize = 1 + (uint32_t)sim::draw(3);
  if (sim::draw(3) == 0) kc.maxCacheSize = 1000;
  static const int ticks[] = {1000, 10, 100};
  kc.ttlTickDuration = std::chrono::milliseconds(ticks[sim::draw(3)]);
  kc.ttlTicksPerWheel = 8u << sim::draw(3);
  kc.ttlNumWheels = 3 + sim::draw(2);
  int n = 5 + (int)sim::draw(th ? 40 : 22);
  std::vector<Op> plan;
  uint64_t idc = 0;
  std::vector<int64_t> pendingTtl; // TTLs handed out so far (to aim clock advances at)
  for (int i = 0; i < n; i++)
  {
    Op o;
    static const int mix[] = {SET, SET, SET_TTL, SET_TTL, SET_TTL, BATCH, BATCH_TTL, REMOVE, REMOVE_PREFIX, CLEAR, EXPIRE_AT, EXPIRE_AT, PERSIST, PERSIST, COMPACT, REOPEN, REOPEN, SLEEP, SLEEP, WALLJUMP, WALLJUMP, WALLJUMP};
    o.k = mix[sim::draw(22)];
    o.key = g_keys[sim::draw(nkeys)];
    static const size_t szs[] = {0, 1, 7, 40, 300, 9000};
    o.val = mkval(++idc, szs[sim::draw(th ? 6 : 5)]);
    static const int64_t ttls[] = {1, 2, 3, 10, 60, 3600};
    o.ttl_s = ttls[sim::draw(6)];
    if (o.k == BATCH || o.k == BATCH_TTL)
    {
      int bn = 1 + (int)sim::draw(3);
      for (int b = 0; b < bn; b++) o.batch.push_back({g_keys[sim::draw(nkeys)], mkval(++idc, szs[sim::draw(4)])});
    }
    if (o.k == REMOVE_PREFIX) o.key = sim::draw(2) ? "a" : "ab";
    if (o.k == SET_TTL || o.k == BATCH_TTL || o.k == EXPIRE_AT) pendingTtl.push_back(o.ttl_s);
    if (o.k == SLEEP || o.k == WALLJUMP)
    {
      // aim at a pending expiry: just before, exactly on, just after; or a far jump
      int64_t base = pendingTtl.empty() ? 1 : pendingTtl[sim::draw(pendingTtl.size())];
      static const int64_t offs[] = {-1, 0, 1, -500, 500, 0, 1};
      o.delta_ms = base * 1000 + offs[sim::draw(7)];
      if (sim::draw(6) == 0) o.delta_ms = 4000000 + sim::draw(1000);
      if (sim::draw(4) == 0) o.delta_ms = 1 + sim::draw(1500);
      if (o.delta_ms <= 0) o.delta_ms = 1;
      // a sleep is served tick by tick by the wheel thread: keep it to at most 5000 ticks (far advances are wall-clock jumps)
      if (o.k == SLEEP && o.delta_ms > (int64_t)kc.ttlTickDuration.count() * 5000) o.k = WALLJUMP;
    }
    plan.push_back(o);
  }
  {
    std::string l = "keys=" + std::to_string(nkeys) + " cache=" + std::to_string(kc.maxCacheSize) + " tick=" + std::to_string(kc.ttlTickDuration.count()) + "ms logMax=" + std::to_string(kc.maxLogSizeBytes) + " :";
    for (auto& o : plan)
    {
      l += std::string(" ") + opn[o.k];
      if (o.k == SET || o.k == REMOVE || o.k == PERSIST) l += "(" + pk(o.key) + ")";
      if (o.k == SET_TTL || o.k == EXPIRE_AT) l += "(" + pk(o.key) + "," + std::to_string(o.ttl_s) + "s)";
      if (o.k == BATCH_TTL) l += "(" + std::to_string(o.ttl_s) + "s)";
      if (o.k == SLEEP || o.k == WALLJUMP) l += "(" + std::to_string(o.delta_ms) + "ms)";
    }
    sim::notef("%s", l.c_str());
  }
  sim::Config cfg;
  cfg.strategy = (int)sim::draw(2) ? sim::STICKY : sim::RANDOM; // the wheel and eviction threads interleave with the main thread at lock operations
  cfg.preempt_permille = 100;
  cfg.step_ns = 0;            // time is frozen inside operations
  cfg.wall_ms_aligned = true; // persisted (ms) and in-memory expiries coincide
  cfg.max_steps = 8000000;
  sim::begin(cfg);
  std::string root = sim::scratch_dir() + "/kv";
  mkdir(root.c_str(), 0700);
  Model m;
  std::unique_ptr<KVStore> s(new KVStore(root + "/store", kc));
  int step = 0;
  size_t expiredSeen = 0, reopens = 0;
  for (auto& o : plan)
  {
    step++;
    int64_t now = (int64_t)sim::wall_ms();
    switch (o.k)
    {
    case SET: s->set(o.key, o.val); m[o.key] = {o.val, INT64_MAX}; break;
    case SET_TTL: s->set(o.key, o.val, std::chrono::seconds(o.ttl_s)); m[o.key] = {o.val, now + o.ttl_s * 1000}; break;
    case BATCH:
    {
      std::unordered_map<std::string, Bytes> b;
      for (auto& kv : o.batch) b[kv.first] = kv.second; // later duplicates overwrite earlier ones, as in the map below
      s->setBatch(b);
      for (auto& kv : b) m[kv.first] = {kv.second, INT64_MAX};
      break;
    }
    case BATCH_TTL:
    {
      std::unordered_map<std::string, Bytes> b;
      for (auto& kv : o.batch) b[kv.first] = kv.second;
      s->setBatch(b, std::chrono::seconds(o.ttl_s));
      for (auto& kv : b) m[kv.first] = {kv.second, now + o.ttl_s * 1000};
      break;
    }
    case REMOVE: s->remove(o.key); m.erase(o.key); break;
    case REMOVE_PREFIX:
    {
      size_t want = 0;
      for (auto it = m.begin(); it != m.end();)
      {
        if (it->first.compare(0, o.key.size(), o.key) == 0) { if (it->second.exp_ms > now) want++; it = m.erase(it); }
        else ++it;
      }
      size_t got = s->removeWithPrefix(o.key);
      if (got != want) sim::fail("c12-remove-prefix-count", "step %d: removeWithPrefix('%s') returned %zu, reference %zu", step, o.key.c_str(), got, want);
      break;
    }
    case CLEAR: s->clear(); m.clear(); break;
    case EXPIRE_AT:
      s->expireAt(o.key, std::chrono::system_clock::time_point(std::chrono::milliseconds(now + o.ttl_s * 1000)));
      if (visible(m, o.key, now)) m[o.key].exp_ms = now + o.ttl_s * 1000; // absent (or already expired) key: no-op
      break;
    case PERSIST:
      s->persist(o.key);
      if (visible(m, o.key, now)) m[o.key].exp_ms = INT64_MAX;
      break;
    case COMPACT: s->compact(); break;
    case REOPEN:
      s->shutdown();
      s.reset();
      s.reset(new KVStore(root + "/store", kc));
      reopens++;
      break;
    case SLEEP: sim::sleep_ns((uint64_t)o.delta_ms * 1000000ull); break;           // both clocks advance, the wheel and the eviction worker get to run
    case WALLJUMP: sim::wall_jump_ms(o.delta_ms); break;                            // wall clock only: nothing has been evicted yet
    }
    now = (int64_t)sim::wall_ms();
    for (auto& kv : m) if (kv.second.exp_ms <= now) expiredSeen++;
    compare_all(*s, m, opn[o.k], step);
    // the reference map forgets expired keys for good: they must never come back
    purge(m, now);
  }
  s->shutdown();
  s.reset();
  // final restart check
  {
    KVStore r(root + "/store", kc);
    compare_all(r, m, "final reopen", step + 1);
  }
  sim::count("c12.steps", (uint64_t)step);
  sim::count("c12.expired_key_observations", expiredSeen);
  sim::count("c12.reopens", reopens);
  sim::state_mix((uint64_t)step * 31 + expiredSeen * 7 + reopens);
  sim::finish_ok();
}

// ------------------------------------------------------------------ concurrent mode
static void run_conc(bool th)
{
  int nk = 1 + (int)sim::draw(3);
  g_keys.resize((size_t)nk);
  KVStoreConfig kc;
  kc.enableBackgroundCompaction = sim::draw(2) == 0;
  kc.compactionInterval = std::chrono::milliseconds(50);
  kc.maxLogSizeBytes = 300;
  kc.maxCacheSize = 1 + (uint32_t)sim::draw(2);
  kc.ttlTickDuration = std::chrono::milliseconds(sim::draw(2) ? 10 : 100);
  kc.ttlTicksPerWheel = 16;
  kc.ttlNumWheels = 3;
  int nthr = 2 + (int)sim::draw(th ? 3 : 2);
  int nops = 4 + (int)sim::draw(th ? 30 : 14);
  struct W { int key; uint64_t val; int64_t exp_ms; hx::Span sp; int kind; int64_t exp_lo = INT64_MAX; }; // exp_lo/exp_ms: earliest/latest admissible expiry // kind 0 set,1 set-ttl,2 remove
  struct R { int key; std::optional<uint64_t> val; hx::Span sp; int64_t t_inv, t_ret; };
  std::vector<std::vector<W>> writes(nthr);
  std::vector<std::vector<R>> reads(nthr);
  struct P { int kind; int key; uint32_t gap_us; int64_t ttl_s; };
  std::vector<std::vector<P>> plan(nthr);
  for (auto& v : plan)
    for (int i = 0; i < nops; i++)
    {
      P p;
      uint64_t r = sim::draw(10);
      p.kind = r < 4 ? 3 : r < 6 ? 0 : r < 9 ? 1 : 2; // 3 = read
      p.key = (int)sim::draw(nk);
      static const uint32_t gs[] = {0, 0, 100, 20000, 400000};
      p.gap_us = gs[sim::draw(5)];
      p.ttl_s = 1 + (int64_t)sim::draw(2);
      v.push_back(p);
    }
  sim::notef("concurrent: threads=%d keys=%d ops/thread=%d tick=%lldms bgCompaction=%d", nthr, nk, nops, (long long)kc.ttlTickDuration.count(), kc.enableBackgroundCompaction);
  hx::SchedOpts so;
  so.stall_max_ns = 30000000;
  so.step_ns = 200;
  sim::Config cfg = hx::draw_sched(so);
  cfg.wall_ms_aligned = true;
  cfg.max_steps = 6000000;
  sim::begin(cfg);
  std::string root = sim::scratch_dir() + "/kv";
  mkdir(root.c_str(), 0700);
  KVStore s(root + "/store", kc);
  std::atomic<uint64_t> idc{0};
  std::vector<std::thread> thr;
  for (int t = 0; t < nthr; t++)
    thr.emplace_back([&, t]
    {
      sim::name_thread("kvuser");
      for (auto& p : plan[t])
      {
        const std::string& key = g_keys[(size_t)p.key];
        if (p.kind == 3)
        {
          R r;
          r.key = p.key;
          r.t_inv = (int64_t)sim::wall_ms();
          r.sp.inv = sim::stamp();
          auto g = s.get(key);
          r.sp.ret = sim::stamp();
          r.t_ret = (int64_t)sim::wall_ms();
          if (g) { if (g->size() != 8) sim::fail("c12-conc-value", "get returned a %zu-byte value nobody wrote", g->size()); uint64_t v; memcpy(&v, g->data(), 8); r.val = v; }
          reads[t].push_back(r);
        }
        else
        {
          W w;
          w.key = p.key;
          w.kind = p.kind;
          w.val = idc.fetch_add(1) + 1;
          Bytes b(8);
          memcpy(b.data(), &w.val, 8);
          int64_t t0 = (int64_t)sim::wall_ms();
          w.sp.inv = sim::stamp();
          if (p.kind == 0) { s.set(key, b); w.exp_ms = INT64_MAX; }
          else if (p.kind == 1) { s.set(key, b, std::chrono::seconds(p.ttl_s)); w.exp_ms = t0 + p.ttl_s * 1000; w.exp_lo = t0 + p.ttl_s * 1000; }
          else { s.remove(key); w.val = 0; w.exp_ms = INT64_MAX; }
          w.sp.ret = sim::stamp();
          int64_t t1 = (int64_t)sim::wall_ms();
          if (p.kind == 1) w.exp_ms = t1 + p.ttl_s * 1000; // latest admissible expiry (the store computed it somewhere inside the call)
          writes[t].push_back(w);
        }
        if (p.gap_us) sim::sleep_ns((uint64_t)p.gap_us * 1000ull);
      }
    });
  for (auto& t : thr) t.join();
  // ---- each read returns the value of a write that is not superseded in real-time order, and never a value whose expiry had
  // certainly passed when the read was invoked
  std::vector<const W*> allw;
  for (auto& v : writes) for (auto& w : v) allw.push_back(&w);
  size_t checked = 0;
  for (auto& v : reads)
    for (auto& r : v)
    {
      checked++;
      // candidate writes on this key
      bool ok = false;
      std::string why;
      if (!r.val)
      {
        // absent is admissible if: no write completed before the read began, or a remove/expiry could explain it, or a write overlaps
        bool anySurely = false;
        for (auto* w : allw)
        {
          if (w->key != r.key || w->kind == 2) continue;
          if (w->sp.ret >= r.sp.inv) continue; // overlaps the read: either outcome is fine
          // completed before the read began: absent is still admissible if another operation on the key could have superseded it
          bool superseded = false;
          for (auto* x : allw) if (x != w && x->key == r.key && x->sp.ret > w->sp.inv && x->sp.inv < r.sp.ret) superseded = true;
          // ... or if its earliest admissible expiry had been reached when the read returned
          bool mayHaveExpired = w->exp_lo != INT64_MAX && w->exp_lo <= r.t_ret;
          if (!superseded && !mayHaveExpired) anySurely = true;
        }
        ok = !anySurely;
        why = "a set had completed before the read began, nothing superseded it and its expiry (if any) had not been reached";
      }
      else
      {
        const W* src = nullptr;
        for (auto* w : allw) if (w->val == *r.val && w->kind != 2) src = w;
        if (!src) sim::fail("c12-conc-value", "get returned value %llu which no set ever wrote", (unsigned long long)*r.val);
        if (src->key != r.key) sim::fail("c12-conc-value", "get('%s') returned a value written to another key", pk(g_keys[(size_t)r.key]).c_str());
        if (src->sp.inv > r.sp.ret) sim::fail("c12-conc-future", "get returned a value whose set was invoked after the read returned");
        // superseded: another write/remove on the key that began after src returned and returned before the read began
        ok = true;
        for (auto* x : allw)
          if (x != src && x->key == r.key && x->sp.inv > src->sp.ret && x->sp.ret < r.sp.inv) { ok = false; why = "a later completed operation on the key had superseded that value before the read began"; }
        // expired: the value's latest admissible expiry had passed when the read was invoked
        if (ok && src->exp_ms != INT64_MAX && src->exp_ms <= r.t_inv) { ok = false; why = "its expiry (+" + std::to_string(src->exp_ms - r.t_inv) + " ms relative to the read) had passed when the read was invoked"; }
      }
      if (!ok)
        sim::fail(r.val ? (why.find("expiry") != std::string::npos ? "c12-conc-expired-visible" : "c12-conc-stale") : "c12-conc-lost", "get('%s') returned %s although %s",
                  pk(g_keys[(size_t)r.key]).c_str(), r.val ? ("value " + std::to_string(*r.val)).c_str() : "nothing", why.c_str());
    }
  s.shutdown();
  sim::count("c12.conc_reads", checked);
  sim::count("c12.conc_writes", allw.size());
  sim::state_mix(checked * 31 + allw.size());
  sim::finish_ok();
}
