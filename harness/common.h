// Shared helpers for harnesses: swarm configuration, history records, small utilities.
#pragma once
#include "../simrt/sim.h"
#include <cstdint>
#include <cstdio>
#include <cstring>
#include <string>
#include <vector>
#include <algorithm>

namespace hx
{
inline bool thorough() { return std::strcmp(sim::tier(), "thorough") == 0; }

// Per-run scheduler configuration drawn swarm-style from the workload stream (index 0 = simplest).
struct SchedOpts
{
  bool allow_stalls = true;
  uint64_t stall_max_ns = 5000000; // 5 ms
  bool allow_spurious = true;
  uint64_t step_ns = 1000;
  unsigned stall_one_in = 4; // one run in N has stalls enabled
  bool rr_baseline = true; // include the non-preemptive round-robin baseline among the strategies
};
inline sim::Config draw_sched(const SchedOpts& o = SchedOpts())
{
  sim::Config c;
  static const unsigned pre[] = {50, 5, 20, 100, 300, 2};
  uint64_t s = sim::draw(o.rr_baseline ? 10 : 9);
  if (s <= 5) { c.strategy = sim::STICKY; c.preempt_permille = pre[s]; }
  else if (s == 6) { c.strategy = sim::RANDOM; }
  else if (s == 7 || s == 8) { c.strategy = sim::PCT; c.pct_depth = 1 + (unsigned)sim::draw(5); c.pct_horizon = 200ull << sim::draw(8); }
  else { c.strategy = sim::RR; }
  c.step_ns = o.step_ns;
  if (o.allow_stalls && sim::draw(o.stall_one_in) == o.stall_one_in - 1)
  {
    static const unsigned ppm[] = {200, 1000, 5000, 20000};
    c.stall_ppm = ppm[sim::draw(4)];
    c.stall_max_ns = 1 + o.stall_max_ns / (1ull << (2 * sim::draw(4)));
    if (sim::draw(2)) c.create_stall_permille = 150;
  }
  if (o.allow_spurious && sim::draw(4) == 3) c.spurious_ppm = 20000;
  sim::logf("sched strat=%d pre=%u pct=%u/%llu stall=%u/%llu spur=%u", c.strategy, c.preempt_permille, c.pct_depth,
            (unsigned long long)c.pct_horizon, c.stall_ppm, (unsigned long long)c.stall_max_ns, c.spurious_ppm);
  return c;
}

// deterministic keyed byte: attributable payload content
inline unsigned char keyed(uint64_t key, uint64_t off)
{
  uint64_t x = key * 0x9E3779B97F4A7C15ull + off * 0xD1B54A32D192ED03ull + 0x2545F4914F6CDD1Dull;
  x ^= x >> 29;
  x *= 0xbf58476d1ce4e5b9ull;
  x ^= x >> 32;
  return (unsigned char)x;
}
inline std::string keyed_bytes(uint64_t key, size_t n, size_t from = 0)
{
  std::string s(n, '\0');
  for (size_t i = 0; i < n; i++) s[i] = (char)keyed(key, from + i);
  return s;
}
inline std::string hex(const std::string& s, size_t max = 32)
{
  static const char* d = "0123456789abcdef";
  std::string o;
  for (size_t i = 0; i < s.size() && i < max; i++) { o += d[(unsigned char)s[i] >> 4]; o += d[(unsigned char)s[i] & 15]; }
  if (s.size() > max) o += "..";
  return o;
}
struct Span { uint64_t inv = 0, ret = 0; };
} // namespace hx
