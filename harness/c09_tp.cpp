// C09: iora::core::ThreadPool under the deterministic scheduler.
// Oracles: every accepted task runs exactly once before stop()/destructor returns; futures ready; refusals only for a
// true reason; no task starts after termination returned; concurrently executing tasks and getTotalThreadCount()
// never exceed the configured maximum while the pool accepts work.
#include "common.h"
#include "iora/core/logger.hpp"
#include "iora/core/thread_pool.hpp"

#include <atomic>
#include <chrono>
#include <future>
#include <memory>
#include <stdexcept>
#include <thread>
#include <vector>

using iora::core::ThreadPool;

namespace
{
enum Api { ENQ = 0, TRY = 1, RES = 2 };
struct TaskSpec { int api; uint32_t dur_us; bool throws; bool nested; uint32_t gap_us; };
struct TaskRec
{
  int id = 0;
  int api = 0;
  bool accepted = false;
  int refusal = 0; // 1 full, 2 draining, 3 shutting down, 4 try-false, 5 other
  hx::Span submit;
  std::atomic<int> execs{0};
  uint64_t entry = 0, exit = 0;
  bool throws = false;
  std::future<int> fut;
  bool has_fut = false;
};
struct World
{
  ThreadPool* pool = nullptr; // raw: tasks may use it while the destructor runs
  size_t initial = 0, maxSize = 1, maxQueue = 1;
  unsigned idle_ms = 1;
  std::vector<std::unique_ptr<TaskRec>> tasks; // pre-allocated, index = task id
  std::atomic<int> running{0};
  std::atomic<int> maxRunning{0};
  std::atomic<int> handlerCalls{0};
  std::atomic<size_t> maxTotalSeen{0};
  uint64_t term_inv = 0, term_ret = 0; // first terminating call (drain/stop/shutdown)
  uint64_t final_ret = 0;              // stop()/shutdown()/destructor returned: nothing may start afterwards
  std::atomic<bool> terminated{false};
};
World* W;

void body(TaskRec* r, uint32_t dur_us, bool throws)
{
  World& w = *W;
  r->entry = sim::stamp();
  r->execs.fetch_add(1);
  if (w.terminated.load()) sim::fail("tp-start-after-stop", "task %d started after stop()/destructor had returned", r->id);
  int now = w.running.fetch_add(1) + 1;
  int prev = w.maxRunning.load();
  while (now > prev && !w.maxRunning.compare_exchange_weak(prev, now)) {}
  if (dur_us) std::this_thread::sleep_for(std::chrono::microseconds(dur_us));
  else sim::point(0xc09);
  w.running.fetch_sub(1);
  r->exit = sim::stamp();
  if (throws) throw std::runtime_error("task failure");
}

void submit(TaskRec* r, const TaskSpec& s)
{
  World& w = *W;
  r->api = s.api;
  r->throws = s.throws;
  r->submit.inv = sim::stamp();
  try
  {
    if (s.api == ENQ)
    {
      w.pool->enqueue([r, s] { body(r, s.dur_us, s.throws); });
      r->accepted = true;
    }
    else if (s.api == TRY)
    {
      r->accepted = w.pool->tryEnqueue([r, s] { body(r, s.dur_us, s.throws); });
      if (!r->accepted) r->refusal = 4;
    }
    else
    {
      r->fut = w.pool->enqueueWithResult([r, s]() -> int { body(r, s.dur_us, s.throws); return r->id * 7 + 1; });
      r->has_fut = true;
      r->accepted = true;
    }
  }
  catch (const std::runtime_error& e)
  {
    std::string m = e.what();
    r->accepted = false;
    if (m.find("full") != std::string::npos) r->refusal = 1;
    else if (m.find("draining") != std::string::npos) r->refusal = 2;
    else if (m.find("shutting down") != std::string::npos) r->refusal = 3;
    else r->refusal = 5;
  }
  r->submit.ret = sim::stamp();
  size_t tot = w.pool->getTotalThreadCount();
  size_t prev = w.maxTotalSeen.load();
  while (tot > prev && !w.maxTotalSeen.compare_exchange_weak(prev, tot)) {}
}
} // namespace

extern "C" HarnessInfo harness_info() { return {"c09_tp", "C09", 15}; }

extern "C" void harness_run()
{
  iora::core::Logger::setLevel(iora::core::Logger::Level::Fatal);
  World w;
  W = &w;
  bool th = hx::thorough();
  // ---- plan
  w.initial = sim::draw(4);
  w.maxSize = std::max<size_t>(1, w.initial) + sim::draw(th ? 5 : 3);
  static const unsigned idles[] = {1, 5, 20, 200};
  w.idle_ms = idles[sim::draw(4)];
  w.maxQueue = 1 + sim::draw(th ? 16 : 6);
  int nsub = 1 + (int)sim::draw(th ? 5 : 3);
  int termMode = (int)sim::draw(5); // 0 destructor only, 1 stop() racing submitters, 2 drain+stop racing, 3 shutdown() racing, 4 stop() after join
  uint64_t termDelay = sim::draw(3) == 0 ? 0 : sim::draw(3000000);
  std::vector<std::vector<TaskSpec>> plan(nsub);
  int total = 0;
  for (int s = 0; s < nsub; s++)
  {
    int n = 1 + (int)sim::draw(th ? 10 : 6);
    for (int i = 0; i < n; i++)
    {
      TaskSpec t;
      t.api = (int)sim::draw(3);
      static const uint32_t durs[] = {0, 0, 50, 500, 3000, 30000};
      t.dur_us = durs[sim::draw(6)];
      t.throws = sim::draw(6) == 5;
      t.nested = sim::draw(6) == 5;
      static const uint32_t gaps[] = {0, 0, 0, 100, 2000, 0};
      t.gap_us = gaps[sim::draw(6)];
      if (t.gap_us == 0 && sim::draw(8) == 7) t.gap_us = w.idle_ms * 2500; // idle gap beyond the idle timeout
      plan[s].push_back(t);
      total += t.nested ? 2 : 1;
    }
  }
  for (int i = 0; i < total; i++)
  {
    w.tasks.emplace_back(new TaskRec());
    w.tasks.back()->id = i;
  }
  sim::notef("pool(initial=%zu,max=%zu,idle=%ums,queue=%zu) submitters=%d tasks=%d termMode=%d termDelay=%lluns", w.initial, w.maxSize, w.idle_ms,
             w.maxQueue, nsub, total, termMode, (unsigned long long)termDelay);
  for (int s = 0; s < nsub; s++)
  {
    std::string l = "submitter " + std::to_string(s) + ":";
    for (auto& t : plan[s])
      l += std::string(" ") + (t.api == ENQ ? "enqueue" : t.api == TRY ? "tryEnqueue" : "enqueueWithResult") + "(" + std::to_string(t.dur_us) + "us" +
           (t.throws ? ",throws" : "") + (t.nested ? ",nested" : "") + ")" + (t.gap_us ? "+gap" + std::to_string(t.gap_us) : "");
    sim::notef("%s", l.c_str());
  }
  hx::SchedOpts so;
  so.stall_max_ns = 40000000; // up to 40 ms: longer than the small idle timeouts and than shutdown()'s grace sleeps
  so.stall_one_in = 2;
  sim::Config cfg = hx::draw_sched(so);
  // a quarter of the runs: the thread that creates a worker is often descheduled for tens of milliseconds right after
  // pthread_create, i.e. between the creation of a worker and its registration in the pool (longer than shutdown()'s grace sleeps)
  if (sim::draw(4) == 0) { cfg.create_stall_permille = 600; cfg.stall_max_ns = 40000000; }
  sim::begin(cfg);

  w.pool = new ThreadPool(w.initial, w.maxSize, std::chrono::milliseconds(w.idle_ms), w.maxQueue,
                          [&](std::exception_ptr) { w.handlerCalls.fetch_add(1); });
  std::atomic<int> nextNested{0};
  int firstNestedId = 0;
  for (auto& v : plan) firstNestedId += (int)v.size();
  std::vector<std::thread> subs;
  int base = 0;
  for (int s = 0; s < nsub; s++)
  {
    subs.emplace_back([&, s, base]
    {
      char nm[16];
      snprintf(nm, sizeof nm, "sub%d", s);
      sim::name_thread(nm);
      for (size_t i = 0; i < plan[s].size(); i++)
      {
        TaskSpec t = plan[s][i];
        TaskRec* r = w.tasks[base + (int)i].get();
        if (t.nested)
        {
          // the task itself submits a follow-up task from inside the pool
          TaskRec* inner = w.tasks[firstNestedId + nextNested.fetch_add(1)].get();
          TaskSpec it{TRY, 0, false, false, 0};
          r->api = t.api;
          r->throws = false;
          r->submit.inv = sim::stamp();
          try
          {
            auto fn = [r, inner, it, t] { body(r, t.dur_us, false); submit(inner, it); };
            if (t.api == TRY) { r->accepted = w.pool->tryEnqueue(fn); if (!r->accepted) r->refusal = 4; }
            else { w.pool->enqueue(fn); r->accepted = true; }
          }
          catch (const std::runtime_error& e)
          {
            std::string m = e.what();
            r->refusal = m.find("full") != std::string::npos ? 1 : m.find("draining") != std::string::npos ? 2 : m.find("shutting down") != std::string::npos ? 3 : 5;
          }
          r->submit.ret = sim::stamp();
        }
        else submit(r, t);
        if (t.gap_us) std::this_thread::sleep_for(std::chrono::microseconds(t.gap_us));
      }
    });
    base += (int)plan[s].size();
  }
  auto terminate_pool = [&](int mode)
  {
    w.term_inv = sim::stamp();
    if (mode == 2)
    {
      auto dr = w.pool->drain(th ? 20000 : 10000);
      w.term_ret = sim::stamp();
      sim::logf("drain success=%d", dr.success ? 1 : 0);
      auto sr = w.pool->stop();
      if (!sr.success) sim::fail("tp-stop-failed", "stop() after drain failed: %s", sr.message.c_str());
    }
    else if (mode == 3) w.pool->shutdown();
    else
    {
      auto sr = w.pool->stop();
      if (!sr.success) sim::fail("tp-stop-failed", "stop() failed: %s", sr.message.c_str());
    }
    if (!w.term_ret) w.term_ret = sim::stamp();
    w.final_ret = sim::stamp();
  };
  std::thread term;
  if (termMode >= 1 && termMode <= 3)
    term = std::thread([&]
    {
      sim::name_thread("term");
      if (termDelay) sim::sleep_ns(termDelay);
      terminate_pool(termMode);
    });
  for (auto& t : subs) t.join();
  if (term.joinable()) term.join();
  if (termMode == 4) terminate_pool(1);
  if (termMode == 0) w.term_inv = sim::stamp();
  // after stop()/shutdown() returned every accepted task must have run (checked before the destructor can hide it)
  auto check_all_ran = [&](const char* when)
  {
    for (auto& r : w.tasks)
    {
      int e = r->execs.load();
      if (r->accepted && e == 0) sim::fail("tp-task-lost", "accepted task %d (api %d) had not run when %s returned", r->id, r->api, when);
      if (r->accepted && r->exit == 0) sim::fail("tp-task-unfinished", "accepted task %d still running when %s returned", r->id, when);
      if (e > 1) sim::fail("tp-task-twice", "task %d ran %d times", r->id, e);
      if (!r->accepted && e != 0) sim::fail("tp-refused-ran", "refused task %d ran", r->id);
    }
  };
  if (termMode != 0) { w.terminated.store(true); check_all_ran("stop()/shutdown()"); }
  // submissions after termination are refused
  if (termMode != 0)
  {
    TaskRec late;
    late.id = -1;
    bool acc = false;
    try { acc = w.pool->tryEnqueue([&late] { late.execs.fetch_add(1); }); } catch (...) {}
    bool threw = false;
    try { w.pool->enqueue([&late] { late.execs.fetch_add(1); }); } catch (const std::runtime_error&) { threw = true; }
    if (acc || !threw) sim::fail("tp-accept-after-stop", "submission accepted after stop()/shutdown() returned (try=%d enqueue_threw=%d)", acc, threw);
    if (late.execs.load()) sim::fail("tp-start-after-stop", "late task ran");
  }
  sim::logf("before destructor: total=%zu pending=%zu active=%zu live_sim_threads=%d", w.pool->getTotalThreadCount(), w.pool->getPendingTaskCount(),
            w.pool->getActiveThreadCount(), sim::live_threads());
  delete w.pool; // destructor (the pointer stays valid for tasks that are still finishing inside it)
  if (termMode == 0) w.final_ret = sim::stamp();
  w.terminated.store(true);
  check_all_ran("the destructor");

  // ---- history oracles
  // futures
  for (auto& r : w.tasks)
    if (r->has_fut && r->accepted)
    {
      if (r->fut.wait_for(std::chrono::seconds(0)) != std::future_status::ready) sim::fail("tp-future-not-ready", "future of task %d not ready after shutdown", r->id);
      try
      {
        int v = r->fut.get();
        if (r->throws) sim::fail("tp-future-value", "task %d threw but its future holds a value", r->id);
        if (v != r->id * 7 + 1) sim::fail("tp-future-value", "task %d future value %d", r->id, v);
      }
      catch (const std::runtime_error&)
      {
        if (!r->throws) sim::fail("tp-future-value", "task %d future holds an unexpected exception", r->id);
      }
    }
  // error handler: once per throwing fire-and-forget task
  {
    int expect = 0;
    for (auto& r : w.tasks) if (r->accepted && r->throws && r->api != RES) expect++;
    if (w.handlerCalls.load() != expect) sim::fail("tp-error-handler", "error handler ran %d times for %d throwing tasks", w.handlerCalls.load(), expect);
  }
  // no task entered after final return
  for (auto& r : w.tasks)
    if (r->entry && w.final_ret && r->entry > w.final_ret) sim::fail("tp-start-after-stop", "task %d entered at stamp %llu after final return %llu", r->id,
                                                                      (unsigned long long)r->entry, (unsigned long long)w.final_ret);
  // refusal reasons
  for (auto& r : w.tasks)
  {
    if (r->accepted || r->submit.inv == 0) continue;
    if (r->refusal == 5) sim::fail("tp-refusal-reason", "task %d refused for an undocumented reason", r->id);
    bool termPossible = w.term_inv && w.term_inv < r->submit.ret;
    // queue-full possible? accepted submissions invoked before our return, minus tasks entered before our invoke
    long invoked = 0, entered = 0;
    for (auto& o : w.tasks)
    {
      if (o.get() == r.get()) continue;
      if (o->accepted && o->submit.inv < r->submit.ret) invoked++;
      if (o->entry && o->entry < r->submit.inv) entered++;
    }
    bool fullPossible = invoked - entered >= (long)w.maxQueue;
    if (r->refusal == 1 && !fullPossible) sim::fail("tp-refusal-reason", "task %d refused as 'queue full' but at most %ld of %zu slots could be occupied", r->id, invoked - entered, w.maxQueue);
    if ((r->refusal == 2 || r->refusal == 3) && !termPossible) sim::fail("tp-refusal-reason", "task %d refused as draining/shut down before any drain/stop/shutdown was invoked", r->id);
    if (r->refusal == 4 && !fullPossible && !termPossible) sim::fail("tp-refusal-reason", "tryEnqueue of task %d failed although the queue could not be full and no shutdown had begun", r->id);
  }
  // worker bound
  if (w.maxRunning.load() > (int)w.maxSize) sim::fail("tp-max-workers", "%d tasks executed concurrently with maxSize %zu", w.maxRunning.load(), w.maxSize);
  if (w.maxTotalSeen.load() > w.maxSize) sim::fail("tp-max-workers", "getTotalThreadCount() returned %zu with maxSize %zu", w.maxTotalSeen.load(), w.maxSize);
  size_t acc = 0;
  for (auto& r : w.tasks) if (r->accepted) acc++;
  sim::count("tp.accepted", acc);
  sim::count("tp.refused", w.tasks.size() - acc);
  sim::count("tp.max_running", (uint64_t)w.maxRunning.load());
  sim::state_mix(acc * 31 + w.maxSize * 7 + w.initial * 3 + (uint64_t)termMode * 1009 + (uint64_t)w.maxRunning.load() * 17);
  sim::finish_ok();
}
