// C07: TLS sessions authenticate the peer as configured and never downgrade.
// Modes: "client" (iora Transport connects to an OpenSSL / plaintext / garbage peer), "server" (iora Transport listens, OpenSSL /
// plaintext / garbage clients connect). One run = one cell of the configuration matrix drawn from the workload stream, on a
// simulated network with drawn segmentation, latency and faults, at a drawn position of the (simulated) wall clock.
// Oracle: an independent rule table written from the property text decides whether the cell MAY produce an authenticated session;
// observed are the engine's announcements, the data it delivers, what the OpenSSL peer decrypts and the raw bytes on the wire.
#include "common.h"
#include "netpeer.h"
#include "tlsutil.h"
#include "iora/core/logger.hpp"
#include "iora/network/transport.hpp"
#include "iora/network/transport_impl.hpp"

#include <condition_variable>
#include <mutex>
#include <thread>

using namespace iora::network;

namespace
{
// ---- certificate facts, written down independently of the code under test (see certs/gen.sh)
struct CertFact { const char* file; const char* issuer; int notBeforeYear, notAfterYear; const char* names[3]; };
const CertFact CERTS[] = {
  {"server", "ca", 2025, 2045, {"good.example", "localhost", nullptr}},
  {"selfsigned", "self", 2025, 2045, {"good.example", "localhost", nullptr}},
  {"expired", "ca", 2025, 2028, {"good.example", "localhost", nullptr}},
  {"notyet", "ca", 2035, 2045, {"good.example", "localhost", nullptr}},
  {"wrongname", "ca", 2025, 2045, {"other.example", nullptr, nullptr}},
  {"otherca-server", "otherca", 2025, 2045, {"good.example", "localhost", nullptr}},
  {"client", "ca", 2025, 2045, {"verif-client", nullptr, nullptr}},
  {"client-untrusted", "otherca", 2025, 2045, {"verif-client", nullptr, nullptr}},
  {"client-expired", "ca", 2025, 2028, {"verif-client", nullptr, nullptr}},
};
const CertFact* fact(const std::string& f)
{
  for (auto& c : CERTS) if (f == c.file) return &c;
  return nullptr;
}
// CA certificates are valid 2025..2045 as well
bool chain_ok(const CertFact* c, const std::string& anchor) { return c && anchor != "none" && anchor == c->issuer; }
bool time_ok(const CertFact* c, int year) { return c && year >= c->notBeforeYear && year < c->notAfterYear && year >= 2025 && year < 2045; }
bool name_ok(const CertFact* c, const std::string& target)
{
  if (!c) return false;
  for (auto n : c->names) if (n && target == n) return true;
  return false;
}
const int VERS[] = {TLS1_VERSION, TLS1_1_VERSION, TLS1_2_VERSION, TLS1_3_VERSION};
const char* vname(int v) { return v == TLS1_VERSION ? "1.0" : v == TLS1_1_VERSION ? "1.1" : v == TLS1_2_VERSION ? "1.2" : v == TLS1_3_VERSION ? "1.3" : v == 0 ? "unset" : "?"; }

enum PeerKind { P_TLS, P_PLAINTEXT, P_GARBAGE, P_TLS_RST, P_SILENT };
const char* pkname[] = {"openssl", "plaintext", "garbage", "tls-then-rst", "silent"};

struct Obs
{
  std::mutex mx;
  std::condition_variable cv;
  SessionId sid = 0;
  bool announced = false; // onConnect / connectSync success
  bool closed = false;
  std::string delivered;  // bytes handed to onData
  std::string closeMsg;
  // peer side
  bool peerHandshakeOk = false;
  int peerVersion = 0;
  std::string peerGot;    // application bytes the peer obtained from iora (decrypted for a TLS peer)
  bool peerDone = false;
  bool peerSawClientCert = false;
};
} // namespace

extern "C" HarnessInfo harness_info() { return {"c07_tls", "C07", 40}; }
extern "C" void harness_preinit() { tls::preinit(); }

extern "C" void harness_run()
{
  iora::core::Logger::setLevel(iora::core::Logger::Level::Fatal);
  tls::init_deterministic(sim::seed());
  const bool ioraClient = std::string(sim::mode()) != "server";
  const std::string cd = tls::cert_dir();

  // ---- the cell
  bool enabled = sim::draw(10) != 9;
  bool modeSet = sim::draw(10) != 9;
  bool reqTls = sim::draw(16) != 15;
  bool verify = sim::draw(4) != 3;
  static const char* anchors[] = {"ca", "otherca", "none", "none+system=ca"};
  std::string anchor = anchors[sim::draw(4)];
  static const int minv[] = {0, 0, TLS1_VERSION, TLS1_1_VERSION, TLS1_2_VERSION, TLS1_3_VERSION};
  int cfgMin = minv[sim::draw(6)];
  static const char* ciphersV[] = {"", "", "DEFAULT:@SECLEVEL=0", "ALL:@SECLEVEL=0"};
  std::string ciphers = ciphersV[sim::draw(4)];
  static const char* ownClient[] = {"none", "client", "client-untrusted", "client-expired"};
  static const char* ownServer[] = {"server", "server", "server", "expired", "notyet", "selfsigned", "keymismatch"};
  std::string ownCert = ioraClient ? ownClient[sim::draw(4)] : ownServer[sim::draw(7)];
  static const char* targets[] = {"10.0.0.2", "good.example", "other.example", "good.example"};
  std::string target = targets[sim::draw(4)];
  bool syncApi = sim::draw(2) == 1;
  bool earlySend = sim::draw(2) == 1;
  // peer
  static const int pk[] = {P_TLS, P_TLS, P_TLS, P_TLS, P_TLS, P_TLS, P_PLAINTEXT, P_GARBAGE, P_TLS_RST, P_SILENT};
  int peerKind = pk[sim::draw(10)];
  static const char* peerSrvCerts[] = {"server", "server", "selfsigned", "expired", "notyet", "wrongname", "otherca-server"};
  static const char* peerCliCerts[] = {"none", "client", "client", "client-untrusted", "client-expired"};
  std::string peerCert = ioraClient ? peerSrvCerts[sim::draw(7)] : peerCliCerts[sim::draw(5)];
  int peerMax = VERS[sim::draw(2) ? 3 : sim::draw(4)];
  bool peerWantsClientCert = sim::draw(4) == 3;
  // clock: 0 stays in 2030, 1 = 2036 from the beginning, 2 = 2046 from the beginning, 3 = jumps to 2046 after the transport was started
  static const int clocks[] = {0, 0, 0, 0, 1, 2, 3, 0};
  int clockMode = clocks[sim::draw(8)];
  std::string garbage = hx::keyed_bytes(sim::draw(1u << 30), 64 + sim::draw(400));
  if (sim::draw(2)) garbage[0] = 0x16, garbage[1] = 0x03, garbage[2] = 0x03; // looks like a TLS record header
  // network
  sim::net::NetConfig nc;
  static const size_t bufs[] = {65536, 64, 1000, 4096};
  static const size_t msss[] = {1460, 16, 100, 536};
  nc.sndbuf = bufs[sim::draw(4)];
  nc.rcvbuf = bufs[sim::draw(4)];
  nc.mss = msss[sim::draw(4)];
  static const uint64_t lats[] = {50000, 1000, 500000, 5000000};
  nc.latency_ns = lats[sim::draw(4)];
  nc.jitter_ns = sim::draw(2) ? nc.latency_ns / 2 : 0;
  static const unsigned sr[] = {0, 0, 100, 500};
  nc.short_read_permille = sr[sim::draw(4)];
  nc.short_write_permille = sr[sim::draw(4)];
  nc.connect_immediate_permille = sim::draw(4) == 3 ? 500 : 0;
  nc.tap = true;
  TransportConfig tc;
  tc.useEdgeTriggered = sim::draw(2) == 0;
  static const size_t chunks[] = {65536, 16, 1000, 4096};
  tc.ioReadChunk = chunks[sim::draw(4)];
  tc.handshakeTimeout = std::chrono::milliseconds(2000);
  tc.connectTimeout = std::chrono::milliseconds(3000);
  tc.gcInterval = std::chrono::seconds(5);
  size_t rstAfter = 1 + sim::draw(600);

  const std::string ioraMark = "IORA-APP-" + hx::hex(hx::keyed_bytes(0xA11CE, 12));
  const std::string peerMark = "PEER-APP-" + hx::hex(hx::keyed_bytes(0xB0B, 12));

  auto& T = ioraClient ? tc.clientTls : tc.serverTls;
  T.enabled = enabled;
  T.defaultMode = modeSet ? (ioraClient ? TlsMode::Client : TlsMode::Server) : TlsMode::None;
  T.verifyPeer = verify;
  if (anchor == "ca" || anchor == "otherca") T.caFile = cd + "/" + anchor + ".pem";
  T.minVersion = cfgMin;
  T.ciphers = ciphers;
  if (ownCert == "keymismatch") { T.certFile = cd + "/server.pem"; T.keyFile = cd + "/wrongname.key"; }
  else if (ownCert != "none") { T.certFile = cd + "/" + ownCert + ".pem"; T.keyFile = cd + "/" + ownCert + ".key"; }
  // the "system" trust store OpenSSL falls back to when no CA is configured
  setenv("SSL_CERT_DIR", "/nonexistent-verif", 1);
  setenv("SSL_CERT_FILE", anchor == "none+system=ca" ? (cd + "/ca.pem").c_str() : "/nonexistent-verif.pem", 1);
  const std::string effAnchor = anchor == "none+system=ca" ? "ca" : anchor; // for the iora CLIENT; a server has no system fallback
  int year = clockMode == 1 ? 2036 : clockMode >= 2 ? 2046 : 2030;

  sim::notef("role=%s tls-config{enabled=%d mode=%s verifyPeer=%d anchor=%s minVersion=%s ciphers='%s' own-cert=%s} requested=%s %s%s peer{%s cert=%s max=%s wantsClientCert=%d} clock=%d(year %d at handshake) api=%s earlySend=%d",
             ioraClient ? "iora-client" : "iora-server", enabled, modeSet ? "set" : "None", verify, anchor.c_str(), vname(cfgMin), ciphers.c_str(), ownCert.c_str(),
             reqTls ? "TLS" : "plaintext", ioraClient ? "target=" : "", ioraClient ? target.c_str() : "", pkname[peerKind], peerCert.c_str(), vname(peerMax), peerWantsClientCert,
             clockMode, year, syncApi ? "connectSync" : "connect", earlySend);
  sim::notef("net sndbuf=%zu rcvbuf=%zu mss=%zu lat=%lluus shortR=%u shortW=%u ET=%d chunk=%zu", nc.sndbuf, nc.rcvbuf, nc.mss, (unsigned long long)nc.latency_ns / 1000, nc.short_read_permille,
             nc.short_write_permille, tc.useEdgeTriggered, tc.ioReadChunk);

  hx::SchedOpts so;
  so.stall_max_ns = 3000000;
  sim::Config cfg = hx::draw_sched(so);
  cfg.max_steps = 6000000;
  sim::begin(cfg);
  sim::net::configure(nc);
  sim::net::add_host("good.example", "10.0.0.2");
  sim::net::add_host("other.example", "10.0.0.2");
  const int64_t YEAR_MS = 365ll * 86400 * 1000 + 6 * 3600 * 1000;
  if (clockMode == 1) sim::wall_jump_ms(6 * YEAR_MS);
  if (clockMode == 2) sim::wall_jump_ms(16 * YEAR_MS);

  Obs o;
  auto tr = Transport::tcp(tc);
  tr->onConnect([&](SessionId sid, const TransportAddress&)
  {
    std::lock_guard<std::mutex> g(o.mx);
    if (o.sid == 0) o.sid = sid;
    o.announced = true;
    o.cv.notify_all();
  });
  tr->onAccept([&](SessionId sid, const TransportAddress&)
  {
    { std::lock_guard<std::mutex> g(o.mx); if (o.sid == 0) o.sid = sid; }
    // queued while the handshake is in progress; must never leave in clear
    if (earlySend) tr->send(sid, ioraMark.data(), ioraMark.size());
  });
  tr->onData([&](SessionId, iora::core::BufferView d, std::chrono::steady_clock::time_point)
  {
    std::lock_guard<std::mutex> g(o.mx);
    o.delivered.append((const char*)d.data(), d.size());
    o.cv.notify_all();
  });
  tr->onClose([&](SessionId, const TransportErrorInfo& e)
  {
    std::lock_guard<std::mutex> g(o.mx);
    o.closed = true;
    o.closeMsg = e.message;
    o.cv.notify_all();
  });
  auto sr0 = tr->start();
  bool started = sr0.isOk();
  if (!started) sim::count("c07.start_refused", 1);
  if (clockMode == 3) sim::wall_jump_ms(16 * YEAR_MS);

  // ---- peers
  auto peer_ctx = [&](bool server) -> SSL_CTX*
  {
    SSL_CTX* c = SSL_CTX_new(server ? TLS_server_method() : TLS_client_method());
    SSL_CTX_set_security_level(c, 0);
    SSL_CTX_set_cipher_list(c, "ALL:@SECLEVEL=0");
    SSL_CTX_set_min_proto_version(c, TLS1_VERSION);
    SSL_CTX_set_max_proto_version(c, peerMax);
    if (peerCert != "none")
    {
      if (SSL_CTX_use_certificate_file(c, (cd + "/" + peerCert + ".pem").c_str(), SSL_FILETYPE_PEM) != 1 ||
          SSL_CTX_use_PrivateKey_file(c, (cd + "/" + peerCert + ".key").c_str(), SSL_FILETYPE_PEM) != 1)
        sim::fail("harness", "peer certificate %s does not load", peerCert.c_str());
    }
    if (server && peerWantsClientCert)
    {
      SSL_CTX_set_verify(c, SSL_VERIFY_PEER | SSL_VERIFY_FAIL_IF_NO_PEER_CERT, nullptr);
      SSL_CTX_load_verify_locations(c, (cd + "/ca.pem").c_str(), nullptr);
    }
    else SSL_CTX_set_verify(c, SSL_VERIFY_NONE, nullptr);
    return c;
  };
  auto ssl_read_some = [&](SSL* ssl, std::string& out, size_t want)
  {
    std::string buf(512, '\0');
    while (out.size() < want)
    {
      int n = SSL_read(ssl, &buf[0], (int)buf.size());
      if (n <= 0) return;
      out.append(buf.data(), (size_t)n);
    }
  };
  auto run_peer = [&](int fd, bool server)
  {
    peer::set_rcvtimeo(fd, 4000000000ull);
    peer::set_sndtimeo(fd, 4000000000ull);
    if (peerKind == P_TLS)
    {
      SSL_CTX* ctx = peer_ctx(server);
      SSL* ssl = SSL_new(ctx);
      SSL_set_fd(ssl, fd);
      int rc = server ? SSL_accept(ssl) : SSL_connect(ssl);
      if (rc == 1)
      {
        { std::lock_guard<std::mutex> g(o.mx); o.peerHandshakeOk = true; o.peerVersion = SSL_version(ssl); }
        if (X509* pc = SSL_get_peer_certificate(ssl)) { o.peerSawClientCert = true; X509_free(pc); }
        SSL_write(ssl, peerMark.data(), (int)peerMark.size());
        std::string got;
        ssl_read_some(ssl, got, ioraMark.size());
        { std::lock_guard<std::mutex> g(o.mx); o.peerGot = got; }
        SSL_shutdown(ssl);
      }
      ERR_clear_error();
      SSL_free(ssl);
      SSL_CTX_free(ctx);
    }
    else if (peerKind == P_PLAINTEXT || peerKind == P_GARBAGE)
    {
      peer::write_all(fd, peerKind == P_PLAINTEXT ? peerMark : garbage);
      std::string got;
      for (int i = 0; i < 6; i++) if (peer::read_some(fd, got, 4096, 1000000000ull) <= 0) break;
      std::lock_guard<std::mutex> g(o.mx);
      o.peerGot = got;
    }
    else if (peerKind == P_TLS_RST)
    {
      std::string got;
      while (got.size() < rstAfter) if (peer::read_some(fd, got, rstAfter - got.size(), 1000000000ull) <= 0) break;
      peer::rst_close(fd);
      fd = -1;
    }
    else
    {
      std::string got;
      for (int i = 0; i < 5; i++) if (peer::read_some(fd, got, 4096, 1000000000ull) == 0) break;
    }
    if (fd >= 0) ::close(fd);
  };

  std::thread peerThr;
  int plfd = -1;
  if (started && ioraClient)
  {
    plfd = peer::listen_on("10.0.0.2", 6000);
    if (plfd < 0) sim::fail("harness", "peer listen failed");
    peerThr = std::thread([&]
    {
      sim::name_thread("peer-server");
      int fd = peer::accept_one(plfd, 8000000000ull);
      if (fd >= 0) run_peer(fd, true);
      std::lock_guard<std::mutex> g(o.mx);
      o.peerDone = true;
      o.cv.notify_all();
    });
    TlsMode tm = reqTls ? TlsMode::Client : TlsMode::None;
    if (syncApi)
    {
      auto r = tr->connectSync(target, 6000, tm, std::chrono::milliseconds(6000));
      std::lock_guard<std::mutex> g(o.mx);
      if (r.isOk()) { o.sid = r.value(); o.announced = true; }
      else o.closed = true;
    }
    else
    {
      auto r = tr->connect(target, 6000, tm);
      if (r.isOk())
      {
        { std::lock_guard<std::mutex> g(o.mx); o.sid = r.value(); }
        if (earlySend) tr->send(r.value(), ioraMark.data(), ioraMark.size());
      }
      else { std::lock_guard<std::mutex> g(o.mx); o.closed = true; }
    }
  }
  else if (started)
  {
    auto lr = tr->addListener("127.0.0.1", 5000, reqTls ? TlsMode::Server : TlsMode::None);
    if (lr.isErr()) { sim::count("c07.listener_refused", 1); started = false; }
    else
      peerThr = std::thread([&]
      {
        sim::name_thread("peer-client");
        int fd = -1;
        for (int a = 0; a < 50 && fd < 0; a++) { fd = peer::connect_to("127.0.0.1", 5000, 2000000000ull); if (fd < 0) sim::sleep_ns(1000000); }
        if (fd >= 0) run_peer(fd, false);
        std::lock_guard<std::mutex> g(o.mx);
        o.peerDone = true;
        o.cv.notify_all();
      });
  }
  if (started)
  {
    SessionId sid = 0;
    {
      std::unique_lock<std::mutex> lk(o.mx);
      o.cv.wait_for(lk, std::chrono::seconds(12), [&] { return o.announced || o.closed || o.peerDone; });
      sid = o.sid;
      if (o.announced) { lk.unlock(); tr->send(sid, ioraMark.data(), ioraMark.size()); lk.lock(); }
      o.cv.wait_for(lk, std::chrono::seconds(8), [&] { return o.peerDone; });
    }
    if (sid) tr->close(sid);
  }
  if (peerThr.joinable()) peerThr.join();
  tr->stop();
  if (plfd >= 0) ::close(plfd);

  // ---- what iora put on the wire
  std::string wire;
  for (auto& c : sim::net::connections()) wire += ioraClient ? c.a_sent : c.b_sent;

  // ---- the rule table (property text)
  const bool peerIsTls = peerKind == P_TLS;
  bool admitted = o.announced || !o.delivered.empty() || (peerIsTls && o.peerGot.find(ioraMark.substr(0, 12)) != std::string::npos);
  sim::count(admitted ? "c07.sessions_admitted" : "c07.sessions_refused", 1);
  if (reqTls)
  {
    // never clear text, whatever the configuration
    if (wire.find(ioraMark.substr(0, 16)) != std::string::npos)
      sim::fail("c07-cleartext", "application bytes of a session requested with TLS appeared in clear on the wire (%s; tls config enabled=%d mode=%s; peer %s)", ioraClient ? "iora client" : "iora server",
                enabled, modeSet ? "set" : "None", pkname[peerKind]);
    if (!wire.empty() && ioraClient && (unsigned char)wire[0] != 0x16)
      sim::fail("c07-cleartext", "first byte sent on a connection requested with TLS is 0x%02x, not a TLS handshake record", (unsigned char)wire[0]);
    if (admitted && !peerIsTls)
      sim::fail("c07-not-tls-peer", "a session requested with TLS was announced%s although the peer (%s) never spoke TLS", o.delivered.empty() ? "" : " and delivered data", pkname[peerKind]);
    if (admitted && peerIsTls)
    {
      if (peerMax < TLS1_2_VERSION || (o.peerHandshakeOk && o.peerVersion < TLS1_2_VERSION))
        sim::fail("c07-version", "session established with TLS %s (peer ceiling %s, configured minVersion %s, ciphers '%s')", vname(o.peerVersion), vname(peerMax), vname(cfgMin), ciphers.c_str());
      if (verify)
      {
        const CertFact* pc = fact(peerCert);
        if (ioraClient)
        {
          bool ok = chain_ok(pc, effAnchor) && time_ok(pc, year);
          bool byName = target != "10.0.0.2";
          if (!ok)
            sim::fail("c07-unauthenticated-server", "verifyPeer on, anchor=%s, year %d: session announced to a server presenting '%s' (issuer %s, valid %d-%d)", anchor.c_str(), year, peerCert.c_str(),
                      pc ? pc->issuer : "-", pc ? pc->notBeforeYear : 0, pc ? pc->notAfterYear : 0);
          if (byName && !name_ok(pc, target))
            sim::fail("c07-wrong-name", "verifyPeer on: connection made to host name %s was announced although the server's certificate '%s' is not issued for that name", target.c_str(), peerCert.c_str());
        }
        else
        {
          // a server has no system-store fallback: without CA file the engine must not even start
          bool ok = pc && chain_ok(pc, anchor) && time_ok(pc, year);
          if (!ok)
            sim::fail("c07-unauthenticated-client", "server verifyPeer on, anchor=%s, year %d: client admitted presenting %s%s", anchor.c_str(), year, peerCert == "none" ? "no certificate" : "certificate ",
                      peerCert == "none" ? "" : peerCert.c_str());
        }
      }
    }
  }
  sim::state_mix((uint64_t)admitted * 3 + (uint64_t)peerKind * 7 + (uint64_t)verify * 31 + (uint64_t)year);
  sim::finish_ok();
}
