// C07: TLS sessions authenticate the peer as configured and never downgrade.
// Modes: "client" (iora Transport connects to an OpenSSL / plaintext / garbage peer), "server" (iora Transport listens, OpenSSL /
// plaintext / garbage clients connect). One run = one cell of the configuration matrix drawn from the workload stream, on a
// simulated network with drawn segmentation, latency and faults, at a drawn position of the (simulated) wall clock.
// Oracle: an independent rule table written from the property text decides whether the cell MAY produce an authenticated session;
// observed are the engine's announcements, the data it delivers, what the OpenSSL peer decrypts and the raw bytes on the wire.
#include "common.h"
#include "netpeer.h"
#include "tlsutil.h"
#include "iora/core/logger.hpp"
#include "iora/network/transport.hpp"
#include "iora/network/transport_impl.hpp"
#include "iora/network/http_client.hpp"
#include "dnspeer.h"

#include <condition_variable>
#include <mutex>
#include <thread>

using namespace iora::network;

namespace
{
// ---- certificate facts, written down independently of the code under test (see certs/gen.sh)
struct CertFact { const char* file; const char* issuer; int notBeforeYear, notAfterYear; const char* names[3]; };
const CertFact CERTS[] = {
  {"server", "ca", 2025, 2045, {"good.example", "localhost", nullptr}},
  {"selfsigned", "self", 2025, 2045, {"good.example", "localhost", nullptr}},
  {"expired", "ca", 2025, 2028, {"good.example", "localhost", nullptr}},
  {"notyet", "ca", 2035, 2045, {"good.example", "localhost", nullptr}},
  {"wrongname", "ca", 2025, 2045, {"other.example", nullptr, nullptr}},
  {"otherca-server", "otherca", 2025, 2045, {"good.example", "localhost", nullptr}},
  {"client", "ca", 2025, 2045, {"verif-client", nullptr, nullptr}},
  {"client-untrusted", "otherca", 2025, 2045, {"verif-client", nullptr, nullptr}},
  {"client-expired", "ca", 2025, 2028, {"verif-client", nullptr, nullptr}},
};
const CertFact* fact(const std::string& f)
{
  for (auto& c : CERTS) if (f == c.file) return &c;
  return nullptr;
}
// CA certificates are valid 2025..2045 as well
bool chain_ok(const CertFact* c, const std::string& anchor) { return c && anchor != "none" && anchor == c->issuer; }
bool time_ok(const CertFact* c, int year) { return c && year >= c->notBeforeYear && year < c->notAfterYear && year >= 2025 && year < 2045; }
bool name_ok(const CertFact* c, const std::string& target)
{
  if (!c) return false;
  for (auto n : c->names) if (n && target == n) return true;
  return false;
}
const int VERS[] = {TLS1_VERSION, TLS1_1_VERSION, TLS1_2_VERSION, TLS1_3_VERSION};
const char* vname(int v) { return v == TLS1_VERSION ? "1.0" : v == TLS1_1_VERSION ? "1.1" : v == TLS1_2_VERSION ? "1.2" : v == TLS1_3_VERSION ? "1.3" : v == 0 ? "unset" : "?"; }

enum PeerKind { P_TLS, P_PLAINTEXT, P_GARBAGE, P_TLS_RST, P_SILENT };
const char* pkname[] = {"openssl", "plaintext", "garbage", "tls-then-rst", "silent"};

struct Obs
{
  std::mutex mx;
  std::condition_variable cv;
  SessionId sid = 0;
  bool announced = false; // onConnect / connectSync success
  bool closed = false;
  std::string delivered;  // bytes handed to onData
  std::string closeMsg;
  // peer side
  bool peerHandshakeOk = false;
  int peerVersion = 0;
  std::string peerGot;    // application bytes the peer obtained from iora (decrypted for a TLS peer)
  bool peerDone = false;
  bool peerSawClientCert = false;
};
} // namespace

extern "C" HarnessInfo harness_info() { return {"c07_tls", "C07", 40}; }
extern "C" void harness_preinit() { tls::preinit(); }

extern "C" void harness_run()
{
  iora::core::Logger::setLevel(iora::core::Logger::Level::Fatal);
  tls::init_deterministic(sim::seed());
  const bool httpMode = std::string(sim::mode()) == "http";
  const bool ioraClient = std::string(sim::mode()) != "server";
  const std::string cd = tls::cert_dir();

  // ---- the cell. Every dimension has a "good" value (index 0) drawn most of the time, so that most cells differ from a working
  // configuration in one or two dimensions and a fair share of the runs establishes a session.
  auto biased = [&](unsigned n, unsigned goodPermille) -> unsigned { return sim::draw(1000) < goodPermille ? 0u : 1u + (unsigned)sim::draw(n - 1); };
  bool enabled = biased(2, 930) == 0;
  bool modeSet = biased(2, 930) == 0;
  bool reqTls = biased(2, 950) == 0;
  bool verify = biased(2, 700) == 0;
  static const char* anchors[] = {"ca", "otherca", "none"};
  std::string anchor = anchors[biased(3, 600)];
  bool systemCa = biased(2, 650) == 1; // the "system" trust store (used by a client only when no CA is configured) contains the right CA
  static const int minv[] = {0, TLS1_VERSION, TLS1_1_VERSION, TLS1_2_VERSION, TLS1_3_VERSION};
  int cfgMin = minv[biased(5, 400)];
  static const char* ciphersV[] = {"", "DEFAULT:@SECLEVEL=0", "ALL:@SECLEVEL=0"};
  std::string ciphers = ciphersV[biased(3, 500)];
  static const char* ownClient[] = {"none", "client", "client-untrusted", "client-expired"};
  static const char* ownServer[] = {"server", "expired", "notyet", "selfsigned", "keymismatch"};
  std::string ownCert = ioraClient ? ownClient[biased(4, 400)] : ownServer[biased(5, 800)];
  static const char* targets[] = {"good.example", "10.0.0.2", "other.example"};
  std::string target = targets[biased(3, 450)];
  bool syncApi = sim::draw(2) == 1;
  bool earlySend = sim::draw(2) == 1;
  // peer
  static const int pk[] = {P_TLS, P_PLAINTEXT, P_GARBAGE, P_TLS_RST, P_SILENT};
  int peerKind = pk[biased(5, 750)];
  static const char* peerSrvCerts[] = {"server", "selfsigned", "expired", "notyet", "wrongname", "otherca-server"};
  static const char* peerCliCerts[] = {"client", "none", "client-untrusted", "client-expired"};
  std::string peerCert = ioraClient ? peerSrvCerts[biased(6, 550)] : peerCliCerts[biased(4, 500)];
  static const int peerMaxV[] = {TLS1_3_VERSION, TLS1_2_VERSION, TLS1_1_VERSION, TLS1_VERSION};
  int peerMax = peerMaxV[biased(4, 550)];
  bool peerWantsClientCert = biased(2, 800) == 1;
  bool reconfigure = httpMode && biased(2, 750) == 1; // http: the TLS configuration is set AFTER the client was first used
  bool warmPlain = httpMode && biased(2, 750) == 1;   // http: a plain http:// request to the same host:port precedes the https:// one
  if (httpMode) { enabled = true; modeSet = true; cfgMin = 0; ciphers = ""; } // HttpClient exposes none of these
  // clock: 0 stays in 2030, 1 = 2036 from the beginning, 2 = 2046 from the beginning, 3 = jumps to 2046 after the transport was started
  int clockMode = (int)biased(4, 750);
  std::string garbage = hx::keyed_bytes(sim::draw(1u << 30), 64 + sim::draw(400));
  if (sim::draw(2)) garbage[0] = 0x16, garbage[1] = 0x03, garbage[2] = 0x03; // looks like a TLS record header
  // network
  sim::net::NetConfig nc;
  static const size_t bufs[] = {65536, 64, 1000, 4096};
  static const size_t msss[] = {1460, 16, 100, 536};
  nc.sndbuf = bufs[sim::draw(4)];
  nc.rcvbuf = bufs[sim::draw(4)];
  nc.mss = msss[sim::draw(4)];
  static const uint64_t lats[] = {50000, 1000, 500000, 5000000};
  nc.latency_ns = lats[sim::draw(4)];
  nc.jitter_ns = sim::draw(2) ? nc.latency_ns / 2 : 0;
  static const unsigned sr[] = {0, 0, 100, 500};
  nc.short_read_permille = sr[sim::draw(4)];
  nc.short_write_permille = sr[sim::draw(4)];
  nc.connect_immediate_permille = sim::draw(4) == 3 ? 500 : 0;
  // a peer that writes without reading must be able to finish its write: otherwise it and the handshaking engine block each other
  // until the handshake timeout, which the engine spends busy-polling (millions of steps, no property in sight)
  if (peerKind == P_PLAINTEXT || peerKind == P_GARBAGE) { nc.sndbuf = std::max<size_t>(nc.sndbuf, 4096); nc.rcvbuf = std::max<size_t>(nc.rcvbuf, 4096); }
  nc.tap = true;
  TransportConfig tc;
  tc.useEdgeTriggered = sim::draw(2) == 0;
  static const size_t chunks[] = {65536, 16, 1000, 4096};
  tc.ioReadChunk = chunks[sim::draw(4)];
  tc.handshakeTimeout = std::chrono::milliseconds(2000);
  tc.connectTimeout = std::chrono::milliseconds(3000);
  tc.gcInterval = std::chrono::seconds(5);
  size_t rstAfter = 1 + sim::draw(600);

  const std::string ioraMark = "IORA-APP-" + hx::hex(hx::keyed_bytes(0xA11CE, 12));
  const std::string peerMark = "PEER-APP-" + hx::hex(hx::keyed_bytes(0xB0B, 12));
  const std::string httpResp = "HTTP/1.1 200 OK\r\nContent-Length: " + std::to_string(peerMark.size()) + "\r\nConnection: close\r\n\r\n" + peerMark;

  auto& T = ioraClient ? tc.clientTls : tc.serverTls;
  T.enabled = enabled;
  T.defaultMode = modeSet ? (ioraClient ? TlsMode::Client : TlsMode::Server) : TlsMode::None;
  T.verifyPeer = verify;
  if (anchor == "ca" || anchor == "otherca") T.caFile = cd + "/" + anchor + ".pem";
  T.minVersion = cfgMin;
  T.ciphers = ciphers;
  if (ownCert == "keymismatch") { T.certFile = cd + "/server.pem"; T.keyFile = cd + "/wrongname.key"; }
  else if (ownCert != "none") { T.certFile = cd + "/" + ownCert + ".pem"; T.keyFile = cd + "/" + ownCert + ".key"; }
  // the "system" trust store OpenSSL falls back to when no CA is configured
  setenv("SSL_CERT_DIR", "/nonexistent-verif", 1);
  setenv("SSL_CERT_FILE", systemCa ? (cd + "/ca.pem").c_str() : "/nonexistent-verif.pem", 1);
  const std::string effAnchor = anchor == "none" && systemCa ? "ca" : anchor; // for the iora CLIENT; a server has no system fallback
  int year = clockMode == 1 ? 2036 : clockMode >= 2 ? 2046 : 2030;

  sim::notef("role=%s tls-config{enabled=%d mode=%s verifyPeer=%d anchor=%s%s minVersion=%s ciphers='%s' own-cert=%s} requested=%s %s%s peer{%s cert=%s max=%s wantsClientCert=%d} clock=%d(year %d at handshake) api=%s earlySend=%d%s%s",
             ioraClient ? "iora-client" : "iora-server", enabled, modeSet ? "set" : "None", verify, anchor.c_str(), systemCa ? "(system store: ca)" : "(system store: empty)", vname(cfgMin), ciphers.c_str(), ownCert.c_str(),
             reqTls ? "TLS" : "plaintext", ioraClient ? "target=" : "", ioraClient ? target.c_str() : "", pkname[peerKind], peerCert.c_str(), vname(peerMax), peerWantsClientCert,
             clockMode, year, httpMode ? "HttpClient.get" : syncApi ? "connectSync" : "connect", earlySend, reconfigure ? " TLS-CONFIG-SET-AFTER-FIRST-USE" : "", warmPlain ? " PLAIN-HTTP-REQUEST-TO-SAME-HOST-FIRST" : "");
  sim::notef("net sndbuf=%zu rcvbuf=%zu mss=%zu lat=%lluus shortR=%u shortW=%u ET=%d chunk=%zu", nc.sndbuf, nc.rcvbuf, nc.mss, (unsigned long long)nc.latency_ns / 1000, nc.short_read_permille,
             nc.short_write_permille, tc.useEdgeTriggered, tc.ioReadChunk);

  hx::SchedOpts so;
  so.stall_max_ns = 3000000;
  sim::Config cfg = hx::draw_sched(so);
  cfg.max_steps = 6000000;
  sim::begin(cfg);
  sim::net::configure(nc);
  sim::net::add_host("good.example", "10.0.0.2");
  sim::net::add_host("other.example", "10.0.0.2");
  const int64_t YEAR_MS = 365ll * 86400 * 1000 + 6 * 3600 * 1000;
  if (clockMode == 1) sim::wall_jump_ms(6 * YEAR_MS);
  if (clockMode == 2) sim::wall_jump_ms(16 * YEAR_MS);

  Obs o;
  bool started = false;
  // ---- peers
  auto peer_ctx = [&](bool server) -> SSL_CTX*
  {
    SSL_CTX* c = SSL_CTX_new(server ? TLS_server_method() : TLS_client_method());
    SSL_CTX_set_security_level(c, 0);
    SSL_CTX_set_cipher_list(c, "ALL:@SECLEVEL=0");
    SSL_CTX_set_min_proto_version(c, TLS1_VERSION);
    SSL_CTX_set_max_proto_version(c, peerMax);
    if (peerCert != "none")
    {
      if (SSL_CTX_use_certificate_file(c, (cd + "/" + peerCert + ".pem").c_str(), SSL_FILETYPE_PEM) != 1 ||
          SSL_CTX_use_PrivateKey_file(c, (cd + "/" + peerCert + ".key").c_str(), SSL_FILETYPE_PEM) != 1)
        sim::fail("harness", "peer certificate %s does not load", peerCert.c_str());
    }
    if (server && peerWantsClientCert)
    {
      SSL_CTX_set_verify(c, SSL_VERIFY_PEER | SSL_VERIFY_FAIL_IF_NO_PEER_CERT, nullptr);
      SSL_CTX_load_verify_locations(c, (cd + "/ca.pem").c_str(), nullptr);
    }
    else SSL_CTX_set_verify(c, SSL_VERIFY_NONE, nullptr);
    return c;
  };
  auto ssl_read_some = [&](SSL* ssl, std::string& out, size_t want)
  {
    std::string buf(512, '\0');
    while (out.size() < want)
    {
      int n = SSL_read(ssl, &buf[0], (int)buf.size());
      if (n <= 0) return;
      out.append(buf.data(), (size_t)n);
    }
  };
  auto run_peer = [&](int fd, bool server)
  {
    peer::set_rcvtimeo(fd, 4000000000ull);
    peer::set_sndtimeo(fd, 4000000000ull);
    if (peerKind == P_TLS)
    {
      SSL_CTX* ctx = peer_ctx(server);
      SSL* ssl = SSL_new(ctx);
      SSL_set_fd(ssl, fd);
      int rc = server ? SSL_accept(ssl) : SSL_connect(ssl);
      if (rc == 1)
      {
        { std::lock_guard<std::mutex> g(o.mx); o.peerHandshakeOk = true; o.peerVersion = SSL_version(ssl); }
        if (X509* pc = SSL_get_peer_certificate(ssl)) { o.peerSawClientCert = true; X509_free(pc); }
        std::string got;
        if (httpMode)
        {
          std::string buf(512, '\0');
          while (got.find("\r\n\r\n") == std::string::npos)
          {
            int n = SSL_read(ssl, &buf[0], (int)buf.size());
            if (n <= 0) break;
            got.append(buf.data(), (size_t)n);
          }
          if (got.find("\r\n\r\n") != std::string::npos) SSL_write(ssl, httpResp.data(), (int)httpResp.size());
        }
        else
        {
          SSL_write(ssl, peerMark.data(), (int)peerMark.size());
          ssl_read_some(ssl, got, ioraMark.size());
        }
        { std::lock_guard<std::mutex> g(o.mx); o.peerGot = got; }
        SSL_shutdown(ssl);
      }
      ERR_clear_error();
      SSL_free(ssl);
      SSL_CTX_free(ctx);
    }
    else if (peerKind == P_PLAINTEXT || peerKind == P_GARBAGE)
    {
      peer::write_all(fd, peerKind == P_PLAINTEXT ? (httpMode ? httpResp : peerMark) : garbage);
      std::string got;
      for (int i = 0; i < 6; i++) if (peer::read_some(fd, got, 4096, 1000000000ull) <= 0) break;
      std::lock_guard<std::mutex> g(o.mx);
      o.peerGot = got;
    }
    else if (peerKind == P_TLS_RST)
    {
      std::string got;
      while (got.size() < rstAfter) if (peer::read_some(fd, got, rstAfter - got.size(), 1000000000ull) <= 0) break;
      peer::rst_close(fd);
      fd = -1;
    }
    else
    {
      std::string got;
      for (int i = 0; i < 5; i++) if (peer::read_some(fd, got, 4096, 1000000000ull) == 0) break;
    }
    if (fd >= 0) ::close(fd);
  };

  if (httpMode)
  {
    // ---- through HttpClient: the same cell, configured with HttpClient::TlsConfig
    dnsw::Server dns;
    dns.answer = dnsw::table_answer({{"good.example", "10.0.0.2"}, {"other.example", "10.0.0.2"}});
    dns.start();
    int plfd = peer::listen_on("10.0.0.2", 6000);
    if (plfd < 0) sim::fail("harness", "peer listen failed");
    HttpClient::Config hc;
    hc.connectTimeout = std::chrono::milliseconds(3000);
    hc.requestTimeout = std::chrono::milliseconds(4000);
    bool gotResponse = false, configRefused = false;
    std::string body;
    std::thread peerThr;
    {
      HttpClient client(hc);
      HttpClient::TlsConfig want;
      want.verifyPeer = verify;
      if (anchor == "ca" || anchor == "otherca") want.caFile = cd + "/" + anchor + ".pem";
      if (ownCert != "none") { want.clientCertFile = cd + "/" + ownCert + ".pem"; want.clientKeyFile = cd + "/" + ownCert + ".key"; }
      if (reconfigure)
      {
        HttpClient::TlsConfig first;
        first.verifyPeer = false;
        client.setTlsConfig(first);
        client.setDnsServers({"10.0.0.53"}); // initialises the transport with the FIRST configuration
        // either the new configuration takes effect or it is refused; what must not happen is that it is silently ignored
        try { client.setTlsConfig(want); } catch (const std::logic_error&) { configRefused = true; sim::count("c07.late_tls_config_refused", 1); }
      }
      else
      {
        client.setTlsConfig(want);
        client.setDnsServers({"10.0.0.53"});
      }
      if (clockMode == 3) sim::wall_jump_ms(16 * YEAR_MS);
      peerThr = std::thread([&]
      {
        sim::name_thread("peer-server");
        int warmFd = -1;
        if (warmPlain && reqTls && !configRefused)
        {
          // answer the plain request and KEEP the connection open: whatever arrives on it later is on the tap
          warmFd = peer::accept_one(plfd, 12000000000ull);
          if (warmFd >= 0)
          {
            std::string rq;
            for (int i = 0; i < 50 && rq.find("\r\n\r\n") == std::string::npos; i++) if (peer::read_some(warmFd, rq, 4096, 100000000ull) <= 0 && rq.empty()) break;
            peer::write_all(warmFd, "HTTP/1.1 200 OK\r\nContent-Length: 4\r\nConnection: keep-alive\r\n\r\nwarm");
          }
        }
        int fd = peer::accept_one(plfd, warmFd >= 0 ? 5000000000ull : 12000000000ull);
        if (fd >= 0) { peer::set_rcvtimeo(fd, 4000000000ull); peer::set_sndtimeo(fd, 4000000000ull); }
        if (fd >= 0) run_peer(fd, true);
        if (warmFd >= 0)
        {
          // a client that reuses the plain connection for the https request gets a plain answer there
          std::string more;
          for (int i = 0; i < 10; i++) { int rr = peer::read_some(warmFd, more, 4096, 100000000ull); if (rr == 0 || rr == -1 || more.find("\r\n\r\n") != std::string::npos) break; }
          if (more.find("\r\n\r\n") != std::string::npos) peer::write_all(warmFd, httpResp);
          ::close(warmFd);
        }
      });
      if (!configRefused && warmPlain && reqTls)
      {
        try { (void)client.get("http://" + target + ":6000/warm"); sim::count("c07.plain_request_before_https", 1); } catch (const std::exception&) {}
      }
      if (!configRefused)
      try
      {
        auto r = client.get(std::string(reqTls ? "https" : "http") + "://" + target + ":6000/" + ioraMark);
        gotResponse = true;
        body = r.body;
      }
      catch (const std::exception& e) { o.closeMsg = e.what(); }
      peerThr.join();
    }
    dns.shutdown();
    ::close(plfd);
    o.announced = gotResponse;
    o.delivered = body;
    started = true;
  }
  else
  {
    auto tr = Transport::tcp(tc);
    tr->onConnect([&](SessionId sid, const TransportAddress&)
    {
      std::lock_guard<std::mutex> g(o.mx);
      if (o.sid == 0) o.sid = sid;
      o.announced = true;
      o.cv.notify_all();
    });
    tr->onAccept([&](SessionId sid, const TransportAddress&)
    {
      { std::lock_guard<std::mutex> g(o.mx); if (o.sid == 0) o.sid = sid; }
      // queued while the handshake is in progress; must never leave in clear
      if (earlySend) tr->send(sid, ioraMark.data(), ioraMark.size());
    });
    tr->onData([&](SessionId, iora::core::BufferView d, std::chrono::steady_clock::time_point)
    {
      std::lock_guard<std::mutex> g(o.mx);
      o.delivered.append((const char*)d.data(), d.size());
      o.cv.notify_all();
    });
    tr->onClose([&](SessionId, const TransportErrorInfo& e)
    {
      std::lock_guard<std::mutex> g(o.mx);
      o.closed = true;
      o.closeMsg = e.message;
      o.cv.notify_all();
    });
    auto sr0 = tr->start();
    started = sr0.isOk();
    if (!started) sim::count("c07.start_refused", 1);
    if (clockMode == 3) sim::wall_jump_ms(16 * YEAR_MS);

    std::thread peerThr;
    int plfd = -1;
    if (started && ioraClient)
    {
      plfd = peer::listen_on("10.0.0.2", 6000);
      if (plfd < 0) sim::fail("harness", "peer listen failed");
      peerThr = std::thread([&]
      {
        sim::name_thread("peer-server");
        int fd = peer::accept_one(plfd, 8000000000ull);
        if (fd >= 0) run_peer(fd, true);
        std::lock_guard<std::mutex> g(o.mx);
        o.peerDone = true;
        o.cv.notify_all();
      });
      TlsMode tm = reqTls ? TlsMode::Client : TlsMode::None;
      if (syncApi)
      {
        auto r = tr->connectSync(target, 6000, tm, std::chrono::milliseconds(6000));
        std::lock_guard<std::mutex> g(o.mx);
        if (r.isOk()) { o.sid = r.value(); o.announced = true; }
        else o.closed = true;
      }
      else
      {
        auto r = tr->connect(target, 6000, tm);
        if (r.isOk())
        {
          { std::lock_guard<std::mutex> g(o.mx); o.sid = r.value(); }
          if (earlySend) tr->send(r.value(), ioraMark.data(), ioraMark.size());
        }
        else { std::lock_guard<std::mutex> g(o.mx); o.closed = true; }
      }
    }
    else if (started)
    {
      auto lr = tr->addListener("127.0.0.1", 5000, reqTls ? TlsMode::Server : TlsMode::None);
      if (lr.isErr()) { sim::count("c07.listener_refused", 1); started = false; }
      else
        peerThr = std::thread([&]
        {
          sim::name_thread("peer-client");
          int fd = -1;
          for (int a = 0; a < 50 && fd < 0; a++) { fd = peer::connect_to("127.0.0.1", 5000, 2000000000ull); if (fd < 0) sim::sleep_ns(1000000); }
          if (fd >= 0) run_peer(fd, false);
          std::lock_guard<std::mutex> g(o.mx);
          o.peerDone = true;
          o.cv.notify_all();
        });
    }
    if (started)
    {
      SessionId sid = 0;
      {
        std::unique_lock<std::mutex> lk(o.mx);
        o.cv.wait_for(lk, std::chrono::seconds(12), [&] { return o.announced || o.closed || o.peerDone; });
        sid = o.sid;
        if (o.announced) { lk.unlock(); tr->send(sid, ioraMark.data(), ioraMark.size()); lk.lock(); }
        o.cv.wait_for(lk, std::chrono::seconds(8), [&] { return o.peerDone; });
      }
      if (sid) tr->close(sid);
    }
    if (peerThr.joinable()) peerThr.join();
    tr->stop();
    if (plfd >= 0) ::close(plfd);
  }

  // ---- what iora put on the wire
  std::string wire;
  for (auto& c : sim::net::connections()) wire += ioraClient ? c.a_sent : c.b_sent;

  // ---- the rule table (property text)
  const bool peerIsTls = peerKind == P_TLS;
  bool admitted = o.announced || !o.delivered.empty() || (peerIsTls && o.peerGot.find(ioraMark.substr(0, 12)) != std::string::npos);
  sim::count(admitted ? "c07.sessions_admitted" : "c07.sessions_refused", 1);
  {
    // reach counters: in how many cells does the rule table FORBID a session (and why), in how many may there be one
    const CertFact* pc0 = fact(peerCert);
    bool authOk = !verify || (ioraClient ? (chain_ok(pc0, effAnchor) && time_ok(pc0, year) && (target == "10.0.0.2" || name_ok(pc0, target))) : (pc0 && chain_ok(pc0, anchor) && time_ok(pc0, year)));
    bool mayAdmit = reqTls && peerIsTls && peerMax >= TLS1_2_VERSION && authOk && started;
    if (reqTls && started)
    {
      sim::count(mayAdmit ? "c07.cells_session_allowed" : "c07.cells_session_forbidden", 1);
      if (!peerIsTls) sim::count("c07.forbidden_peer_not_tls", 1);
      else if (peerMax < TLS1_2_VERSION) sim::count("c07.forbidden_version_below_1_2", 1);
      else if (!authOk) sim::count("c07.forbidden_peer_not_authenticated", 1);
      if (mayAdmit && admitted) sim::count("c07.allowed_and_established", 1);
    }
  }
  if (reqTls)
  {
    // never clear text, whatever the configuration
    if (wire.find(ioraMark.substr(0, 16)) != std::string::npos)
      sim::fail("c07-cleartext", "application bytes of a session requested with TLS appeared in clear on the wire (%s; tls config enabled=%d mode=%s; peer %s)", ioraClient ? "iora client" : "iora server",
                enabled, modeSet ? "set" : "None", pkname[peerKind]);
    if (!wire.empty() && ioraClient && !warmPlain && (unsigned char)wire[0] != 0x16)
      sim::fail("c07-cleartext", "first byte sent on a connection requested with TLS is 0x%02x, not a TLS handshake record", (unsigned char)wire[0]);
    if (admitted && !peerIsTls)
      sim::fail("c07-not-tls-peer", "a session requested with TLS was announced%s although the peer (%s) never spoke TLS", o.delivered.empty() ? "" : " and delivered data", pkname[peerKind]);
    if (admitted && peerIsTls)
    {
      if (peerMax < TLS1_2_VERSION || (o.peerHandshakeOk && o.peerVersion < TLS1_2_VERSION))
        sim::fail("c07-version", "session established with TLS %s (peer ceiling %s, configured minVersion %s, ciphers '%s')", vname(o.peerVersion), vname(peerMax), vname(cfgMin), ciphers.c_str());
      if (verify)
      {
        const CertFact* pc = fact(peerCert);
        if (ioraClient)
        {
          bool ok = chain_ok(pc, effAnchor) && time_ok(pc, year);
          bool byName = target != "10.0.0.2";
          if (!ok)
            sim::fail("c07-unauthenticated-server", "verifyPeer on, anchor=%s%s, year %d: session announced to a server presenting '%s' (issuer %s, valid %d-%d)", anchor.c_str(), systemCa ? " (system store: ca)" : "", year, peerCert.c_str(),
                      pc ? pc->issuer : "-", pc ? pc->notBeforeYear : 0, pc ? pc->notAfterYear : 0);
          if (byName && !name_ok(pc, target))
            sim::fail("c07-wrong-name", "verifyPeer on: %s to host name %s %s although the server's certificate '%s' is not issued for that name", httpMode ? "HttpClient request" : "Transport connection",
                      target.c_str(), httpMode ? "returned a response" : "was announced", peerCert.c_str());
        }
        else
        {
          // a server has no system-store fallback: without CA file the engine must not even start
          bool ok = pc && chain_ok(pc, anchor) && time_ok(pc, year);
          if (!ok)
            sim::fail("c07-unauthenticated-client", "server verifyPeer on, anchor=%s, year %d: client admitted presenting %s%s", anchor.c_str(), year, peerCert == "none" ? "no certificate" : "certificate ",
                      peerCert == "none" ? "" : peerCert.c_str());
        }
      }
    }
  }
  sim::state_mix((uint64_t)admitted * 3 + (uint64_t)peerKind * 7 + (uint64_t)verify * 31 + (uint64_t)year);
  sim::finish_ok();
}
