// C06: UDP datagram boundaries and peer-to-session mapping of iora::network::Transport (UdpEngine) on the simulated kernel.
#include "common.h"
#include "netpeer.h"
#include "iora/core/logger.hpp"
#include "iora/network/transport.hpp"
#include "iora/network/transport_impl.hpp"

#include <atomic>
#include <map>
#include <mutex>
#include <set>
#include <thread>
#include <vector>

using namespace iora::network;

namespace
{
enum EvT { E_ACCEPT, E_CONNECT, E_DATA, E_CLOSE, E_RET };
struct Ev { uint64_t st; int t; uint64_t sid; std::string addr; std::string payload; };
struct SendRec { uint64_t sid; std::string payload; bool accepted; hx::Span sp; };
struct PeerDg { int peer; int seq; int dstPort; std::string payload; uint64_t st; };
struct World
{
  std::shared_ptr<Transport> tr;
  std::mutex mx;
  std::vector<Ev> log;
  std::vector<uint64_t> sids;
  std::map<uint64_t, std::string> sessPeer; // sid -> "ip:port" as the application was told
  std::vector<SendRec> sends;
  std::vector<PeerDg> peerSent;
  std::set<int> peerFds;
  std::atomic<bool> peersStop{false};
  ListenerId lids[2] = {0, 0};
  int nlisteners = 1;
};
World* W;
std::string addr_s(const TransportAddress& a) { return a.host + ":" + std::to_string(a.port); }
void rec(int t, uint64_t sid, const std::string& addr, const std::string& payload)
{
  World& w = *W;
  std::lock_guard<std::mutex> g(w.mx);
  w.log.push_back({sim::stamp(), t, sid, addr, payload});
  if (t == E_ACCEPT || t == E_CONNECT || t == E_RET)
  {
    bool known = false;
    for (auto s : w.sids) if (s == sid) known = true;
    if (!known) w.sids.push_back(sid);
    if (!addr.empty()) w.sessPeer[sid] = addr;
  }
}
uint64_t pick_sid(uint64_t r)
{
  std::lock_guard<std::mutex> g(W->mx);
  if (W->sids.empty()) return 0;
  return W->sids[r % W->sids.size()];
}
enum OpK { CONNECT, VIA, SEND, SEND_BIG, CLOSE, SLEEP, BURST };
struct Op { int k; uint64_t r; uint32_t gap_us; };
// payload of a datagram sent by peer p: header identifies (peer, seq, dstPort), body keyed
std::string peer_payload(int p, int seq, int dstPort, size_t size)
{
  char h[32];
  int n = snprintf(h, sizeof h, "P%02d.%04d.%05d|", p, seq, dstPort);
  std::string s(h, (size_t)n);
  if (size > s.size()) s += hx::keyed_bytes(((uint64_t)p << 32) | (uint64_t)seq, size - s.size());
  else s.resize(std::max<size_t>(size, 15));
  return s;
}
} // namespace

extern "C" HarnessInfo harness_info() { return {"c06_udp", "C06", 30}; }

extern "C" void harness_run()
{
  iora::core::Logger::setLevel(iora::core::Logger::Level::Fatal);
  World w;
  W = &w;
  bool th = hx::thorough();
  // ---- plan
  sim::net::NetConfig nc;
  nc.latency_ns = sim::draw(2) ? 30000 : 700000;
  nc.jitter_ns = nc.latency_ns;
  bool lossy = sim::draw(3) == 2;
  if (lossy) { nc.udp_drop_permille = 100; nc.udp_dup_permille = 100; nc.udp_reorder_permille = 200; }
  nc.udp_snd_budget = sim::draw(3) == 0 ? 2 : 0; // small egress budget: sendto() returns EAGAIN and the engine has to queue
  nc.epoll_truncate_permille = sim::draw(3) == 2 ? 300 : 0;
  nc.eintr_ppm = sim::draw(3) == 2 ? 10000 : 0;
  TransportConfig tc;
  tc.protocol = Protocol::UDP;
  tc.useEdgeTriggered = sim::draw(2) == 0;
  tc.batching.enabled = sim::draw(4) == 3;
  tc.gcInterval = std::chrono::seconds(1);
  tc.idleTimeout = std::chrono::seconds(sim::draw(4) == 0 ? 2 : 600);
  tc.maxWriteQueue = sim::draw(2) ? 1024 : 6;
  w.nlisteners = 1 + (int)sim::draw(2);
  int npeers = 1 + (int)sim::draw(th ? 5 : 3);
  struct PPlan { std::vector<std::pair<int, uint32_t>> dg; std::vector<uint32_t> gap; uint32_t delay_us; };
  std::vector<PPlan> pplan(npeers);
  for (auto& p : pplan)
  {
    int n = 1 + (int)sim::draw(th ? 16 : 8);
    p.delay_us = (uint32_t)sim::draw(40000);
    for (int i = 0; i < n; i++)
    {
      static const uint32_t szs[] = {15, 16, 17, 100, 512, 1472, 9000, 65507, 40000}; // >= 15: the identifying header
      uint32_t sz = szs[sim::draw(sim::draw(6) == 0 ? 9 : 6)];
      p.dg.push_back({(int)sim::draw(w.nlisteners), sz});
      static const uint32_t gs[] = {0, 0, 50, 2000, 40000, 600000};
      p.gap.push_back(gs[sim::draw(6)]);
    }
  }
  // flood: one peer sends a back-to-back burst while the data handler holds the I/O thread, so that far more datagrams are pending
  // on one listener socket than one wake-up usually sees; afterwards that peer is silent (nothing "rescues" datagrams left behind)
  struct Flood { bool on = false; int peer = 0; int after = 0; int n = 0; uint32_t stall_us = 0; int listener = 0; } flood;
  flood.on = sim::draw(5) == 4;
  if (flood.on)
  {
    static const int ns[] = {65, 100, 129, 130, 160, 200, 260, 300};
    static const uint32_t st[] = {0, 3000, 30000};
    flood.peer = (int)sim::draw((uint64_t)npeers);
    flood.after = (int)sim::draw(pplan[(size_t)flood.peer].dg.size());
    flood.n = ns[sim::draw(8)];
    flood.stall_us = st[sim::draw(3)];
    flood.listener = (int)sim::draw(w.nlisteners);
    nc.udp_rcv_datagrams = 4096; // the simulated socket queue never overflows: a missing data event is the engine's
  }
  int nact = 1 + (int)sim::draw(th ? 3 : 2);
  std::vector<std::vector<Op>> plan(nact);
  for (auto& v : plan)
  {
    int n = 2 + (int)sim::draw(th ? 16 : 9);
    for (int i = 0; i < n; i++)
    {
      static const int mix[] = {CONNECT, VIA, VIA, SEND, SEND, SEND, SEND_BIG, CLOSE, CLOSE, SLEEP, BURST};
      Op o;
      o.k = mix[sim::draw(11)];
      o.r = sim::draw(1u << 20);
      static const uint32_t gs[] = {0, 0, 100, 3000, 30000};
      o.gap_us = gs[sim::draw(5)];
      if (o.k == SLEEP) o.gap_us = 1000 + (uint32_t)sim::draw(500000);
      v.push_back(o);
    }
  }
  sim::notef("listeners=%d peers=%d actors=%d lossy=%d sndBudget=%zu ET=%d batch=%d idle=%llds maxWQ=%zu", w.nlisteners, npeers, nact, lossy, nc.udp_snd_budget, tc.useEdgeTriggered,
             tc.batching.enabled, (long long)tc.idleTimeout.count(), tc.maxWriteQueue);
  for (int p = 0; p < npeers; p++)
  {
    std::string l = "peer " + std::to_string(p) + " (10.0.1." + std::to_string(p + 1) + ":7000) sends:";
    for (auto& d : pplan[p].dg) l += " " + std::to_string(d.second) + "B->" + std::to_string(5000 + d.first);
    sim::notef("%s", l.c_str());
  }
  if (flood.on) sim::notef("flood: peer %d sends %d small datagrams back to back to port %d after its datagram #%d; handler holds the I/O thread %u us on the first", flood.peer, flood.n, 5000 + flood.listener, flood.after, flood.stall_us);
  static const char* opn[] = {"connect", "via-listener", "send", "send-big", "close", "sleep", "burst"};
  for (int a = 0; a < nact; a++)
  {
    std::string l = "actor " + std::to_string(a) + ":";
    for (auto& o : plan[a]) l += std::string(" ") + opn[o.k];
    sim::notef("%s", l.c_str());
  }
  hx::SchedOpts so;
  so.stall_max_ns = 5000000;
  sim::Config cfg = hx::draw_sched(so);
  cfg.max_steps = 4000000;
  sim::begin(cfg);
  sim::net::configure(nc);

  w.tr = Transport::udp(tc);
  w.tr->onAccept([&](SessionId sid, const TransportAddress& a) { rec(E_ACCEPT, sid, addr_s(a), ""); });
  w.tr->onConnect([&](SessionId sid, const TransportAddress& a) { rec(E_CONNECT, sid, addr_s(a), ""); });
  std::atomic<bool> floodStalled{false};
  w.tr->onData([&](SessionId sid, iora::core::BufferView d, std::chrono::steady_clock::time_point)
  {
    rec(E_DATA, sid, "", std::string((const char*)d.data(), d.size()));
    if (flood.on && flood.stall_us && d.size() >= 8 && d.data()[0] == 'P' && d.data()[4] == '1' && !floodStalled.exchange(true)) // seq >= 1000: a flood datagram
      sim::sleep_ns((uint64_t)flood.stall_us * 1000ull); // slow handler
  });
  w.tr->onClose([&](SessionId sid, const TransportErrorInfo&) { rec(E_CLOSE, sid, "", ""); });
  if (w.tr->start().isErr()) sim::fail("harness", "start failed");
  for (int i = 0; i < w.nlisteners; i++)
  {
    auto lr = w.tr->addListener("127.0.0.1", (uint16_t)(5000 + i), TlsMode::None);
    if (lr.isErr()) sim::fail("harness", "addListener failed");
    w.lids[i] = lr.value();
  }
  // ---- peers
  std::vector<int> pfds(npeers);
  std::vector<std::vector<std::string>> peerGot(npeers);
  for (int p = 0; p < npeers; p++)
  {
    pfds[p] = ::socket(AF_INET, SOCK_DGRAM, 0);
    char ip[32];
    snprintf(ip, sizeof ip, "10.0.1.%d", p + 1);
    sockaddr_in me = peer::addr(ip, 7000);
    ::bind(pfds[p], (sockaddr*)&me, sizeof me);
    w.peerFds.insert(pfds[p]);
  }
  std::vector<std::thread> peers;
  for (int p = 0; p < npeers; p++)
    peers.emplace_back([&, p]
    {
      sim::name_thread("peer");
      sim::sleep_ns((uint64_t)pplan[p].delay_us * 1000ull);
      std::vector<char> buf(70000);
      for (size_t i = 0; i < pplan[p].dg.size() && !w.peersStop.load(); i++)
      {
        int dstPort = 5000 + pplan[p].dg[i].first;
        std::string d = peer_payload(p, (int)i, dstPort, pplan[p].dg[i].second);
        sockaddr_in to = peer::addr("127.0.0.1", dstPort);
        uint64_t st = sim::stamp();
        ssize_t k = ::sendto(pfds[p], d.data(), d.size(), 0, (sockaddr*)&to, sizeof to);
        if (k == (ssize_t)d.size()) { std::lock_guard<std::mutex> g(w.mx); w.peerSent.push_back({p, (int)i, dstPort, d, st}); }
        // between sends: receive whatever iora sent us
        uint64_t until = sim::now() + (uint64_t)pplan[p].gap[i] * 1000ull;
        do
        {
          peer::set_rcvtimeo(pfds[p], 200000);
          ssize_t n = ::recv(pfds[p], buf.data(), buf.size(), 0);
          if (n >= 0) peerGot[p].push_back(std::string(buf.data(), (size_t)n));
        } while (sim::now() < until);
        if (flood.on && p == flood.peer && (int)i == flood.after)
        {
          int fport = 5000 + flood.listener;
          sockaddr_in fto = peer::addr("127.0.0.1", fport);
          int sent = 0;
          for (int j = 0; j < flood.n; j++)
          {
            std::string fd = peer_payload(p, 1000 + j, fport, 15 + (size_t)(j % 70));
            uint64_t fst = sim::stamp();
            ssize_t fk = ::sendto(pfds[p], fd.data(), fd.size(), 0, (sockaddr*)&fto, sizeof fto);
            if (fk == (ssize_t)fd.size()) { std::lock_guard<std::mutex> g(w.mx); w.peerSent.push_back({p, 1000 + j, fport, fd, fst}); sent++; }
          }
          sim::count("c06.flood_datagrams", (uint64_t)sent);
        }
      }
      while (!w.peersStop.load())
      {
        peer::set_rcvtimeo(pfds[p], 20000000);
        ssize_t n = ::recv(pfds[p], buf.data(), buf.size(), 0);
        if (n >= 0) peerGot[p].push_back(std::string(buf.data(), (size_t)n));
      }
    });
  // ---- actors
  std::atomic<int> sendSeq{0};
  auto do_send = [&](uint64_t sid, size_t size)
  {
    int seq = sendSeq.fetch_add(1);
    char h[24];
    int n = snprintf(h, sizeof h, "S%06d|", seq);
    std::string d(h, (size_t)n);
    if (size > d.size()) d += hx::keyed_bytes(0x5e0000 + (uint64_t)seq, size - d.size());
    SendRec r;
    r.sid = sid;
    r.payload = d;
    r.sp.inv = sim::stamp();
    r.accepted = w.tr->send(sid, d.data(), d.size());
    r.sp.ret = sim::stamp();
    std::lock_guard<std::mutex> g(w.mx);
    w.sends.push_back(std::move(r));
  };
  std::vector<std::thread> actors;
  for (int a = 0; a < nact; a++)
    actors.emplace_back([&, a]
    {
      sim::name_thread("actor");
      for (auto& o : plan[a])
      {
        char ip[32];
        snprintf(ip, sizeof ip, "10.0.1.%d", (int)(o.r % npeers) + 1);
        switch (o.k)
        {
        case CONNECT: { auto r = w.tr->connect(ip, 7000, TlsMode::None); if (r.isOk()) rec(E_RET, r.value(), std::string(ip) + ":7000", ""); break; }
        case VIA: { auto r = w.tr->connectViaListener(w.lids[(o.r >> 8) % w.nlisteners], ip, 7000); if (r.isOk()) rec(E_RET, r.value(), std::string(ip) + ":7000", ""); break; }
        case SEND: { uint64_t s = pick_sid(o.r); if (s) do_send(s, 8 + o.r % 1400); break; }
        case SEND_BIG: { uint64_t s = pick_sid(o.r); if (s) do_send(s, (o.r & 1) ? 65507 : 20000 + o.r % 30000); break; }
        case BURST: { uint64_t s = pick_sid(o.r); if (s) for (int k = 0; k < 8; k++) do_send(s, 20 + k); break; }
        case CLOSE: { uint64_t s = pick_sid(o.r); if (s) w.tr->close(s); break; }
        default: break;
        }
        if (o.gap_us) sim::sleep_ns((uint64_t)o.gap_us * 1000ull);
      }
    });
  for (auto& t : actors) t.join();
  // quiet tail
  sim::Config q = cfg;
  q.stall_ppm = 0;
  q.create_stall_permille = 0;
  sim::reconfigure(q);
  sim::sleep_ns(tc.idleTimeout.count() < 10 ? 3500000000ull : 900000000ull);
  w.peersStop.store(true);
  for (auto& t : peers) t.join();
  sim::sleep_ns(50000000);
  w.tr->stop();
  for (int fd : pfds) ::close(fd);

  // ---- oracles
  // (1) outbound: every datagram the engine put on the wire is byte-identical to exactly one accepted send and goes to that session's peer
  std::map<std::string, const SendRec*> byPayload;
  for (auto& s : w.sends) byPayload[s.payload] = &s;
  std::map<std::string, int> wireCount;
  size_t engineDatagrams = 0;
  for (auto& d : sim::net::udp_sent())
  {
    if (w.peerFds.count(d.from_fd)) continue;
    engineDatagrams++;
    auto it = byPayload.find(d.payload);
    if (it == byPayload.end())
    {
      // merged, split or corrupted?
      std::string what = "matches no send";
      for (auto& s : w.sends)
      {
        if (d.payload.size() < s.payload.size() && s.payload.compare(0, d.payload.size(), d.payload) == 0) what = "is a fragment of send " + s.payload.substr(0, 8);
        if (d.payload.size() > s.payload.size() && d.payload.compare(0, s.payload.size(), s.payload) == 0) what = "starts with send " + s.payload.substr(0, 8) + " followed by more bytes (merged)";
      }
      sim::fail("c06-wire-payload", "engine sent a %zu-byte datagram to %s that %s", d.payload.size(), d.dst.c_str(), what.c_str());
    }
    const SendRec* s = it->second;
    if (!s->accepted) sim::fail("c06-wire-payload", "a refused send appeared on the wire");
    if (++wireCount[d.payload] > 1) sim::fail("c06-wire-duplicate", "send %s produced more than one datagram", s->payload.substr(0, 8).c_str());
    auto sp = w.sessPeer.find(s->sid);
    if (sp != w.sessPeer.end() && sp->second != d.dst)
      sim::fail("c06-wrong-destination", "send %s on session %llu (peer %s) left for %s", s->payload.substr(0, 8).c_str(), (unsigned long long)s->sid, sp->second.c_str(), d.dst.c_str());
  }
  // (2) inbound: one data event per received datagram, complete payload, on a session of that source
  std::map<std::string, const PeerDg*> peerByPayload;
  for (auto& d : w.peerSent) peerByPayload[d.payload] = &d;
  std::map<std::string, int> delivered;
  std::map<uint64_t, bool> closed;
  std::map<std::pair<int, int>, uint64_t> mapping; // (dstPort, peer) -> session currently receiving
  size_t dataEvents = 0;
  for (auto& e : w.log)
  {
    if (e.t == E_CLOSE) { closed[e.sid] = true; continue; }
    if (e.t != E_DATA) continue;
    dataEvents++;
    if (e.payload.size() >= 2 && e.payload[0] == 'P')
    {
      auto it = peerByPayload.find(e.payload);
      if (it == peerByPayload.end())
      {
        std::string what = "matches no datagram any peer sent";
        for (auto& d : w.peerSent)
        {
          if (e.payload.size() < d.payload.size() && d.payload.compare(0, e.payload.size(), e.payload) == 0) what = "is a truncated/split part of a " + std::to_string(d.payload.size()) + "-byte datagram";
          if (e.payload.size() > d.payload.size() && e.payload.compare(0, d.payload.size(), d.payload) == 0) what = "is a datagram merged with following bytes";
        }
        sim::fail("c06-data-payload", "data event of %zu bytes on session %llu %s", e.payload.size(), (unsigned long long)e.sid, what.c_str());
      }
      const PeerDg* d = it->second;
      int n = ++delivered[e.payload];
      if (n > 1 && !lossy) sim::fail("c06-data-duplicate", "datagram %s delivered %d times on a network that does not duplicate", e.payload.substr(0, 15).c_str(), n);
      if (n > 2) sim::fail("c06-data-duplicate", "datagram %s delivered %d times", e.payload.substr(0, 15).c_str(), n);
      char src[40];
      snprintf(src, sizeof src, "10.0.1.%d:7000", d->peer + 1);
      auto sp = w.sessPeer.find(e.sid);
      if (sp == w.sessPeer.end()) sim::fail("c06-data-unknown-session", "data event on session %llu which was never announced", (unsigned long long)e.sid);
      if (sp->second != src) sim::fail("c06-wrong-session", "datagram from %s delivered on session %llu which belongs to peer %s", src, (unsigned long long)e.sid, sp->second.c_str());
      // (3) mapping stability
      auto key = std::make_pair(d->dstPort, d->peer);
      auto m = mapping.find(key);
      if (m != mapping.end() && m->second != e.sid && !closed[m->second])
        sim::fail("c06-mapping-changed", "datagrams from %s to port %d were arriving on session %llu, which is still open, but now arrive on session %llu", src, d->dstPort,
                  (unsigned long long)m->second, (unsigned long long)e.sid);
      mapping[key] = e.sid;
    }
  }
  if (!lossy)
  {
    // exact network: every peer datagram that reached a listener socket was delivered once (receive queues are large enough here)
    for (auto& d : w.peerSent)
      if (!delivered.count(d.payload)) sim::fail("c06-data-lost", "datagram %s (%zu bytes) from peer %d to port %d never produced a data event", d.payload.substr(0, 15).c_str(), d.payload.size(), d.peer, d.dstPort);
  }
  // what peers received from the engine is intact as well
  for (int p = 0; p < npeers; p++)
    for (auto& g : peerGot[p])
      if (!byPayload.count(g)) sim::fail("c06-peer-got-garbage", "peer %d received a %zu-byte datagram that matches no send", p, g.size());
  sim::count("c06.engine_datagrams", engineDatagrams);
  sim::count("c06.sends", w.sends.size());
  sim::count("c06.peer_datagrams", w.peerSent.size());
  sim::count("c06.data_events", dataEvents);
  sim::count("c06.sessions", w.sids.size());
  sim::state_mix(engineDatagrams * 131 + dataEvents * 17 + w.sids.size());
  w.tr.reset();
  sim::finish_ok();
}
