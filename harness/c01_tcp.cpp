// C01: TCP/TLS byte-stream integrity of iora::network::Transport (TcpEngine) on the simulated kernel.
// Modes: "plain", "tls". The peer is a raw (or OpenSSL) blocking socket on the simulated network.
#include "common.h"
#include "netpeer.h"
#include "tlsutil.h"
#include "iora/core/logger.hpp"
#include "iora/network/transport.hpp"
#include "iora/network/transport_impl.hpp"

#include <atomic>
#include <condition_variable>
#include <map>
#include <mutex>
#include <thread>
#include <vector>

using namespace iora::network;

namespace
{
struct Payload { int thr, seq; size_t size; uint64_t key; hx::Span sp; bool accepted = false; };
struct World
{
  bool tls = false;
  bool iora_server = true;
  std::shared_ptr<Transport> tr;
  std::mutex mx;
  std::condition_variable cv;
  uint64_t sid = 0;
  bool announced = false;
  std::string inbound;
  uint64_t close_st = 0;
  int close_code = -1;
  bool data_after_close = false;
  std::vector<std::vector<Payload>> plan;
  // peer
  std::string peer_rx;
  std::string peer_stream; // what the peer intends to write
  size_t peer_tx = 0;      // bytes the peer has handed to its socket
  bool peer_fin_sent = false, peer_eof = false, peer_err = false, peer_aborted = false, peer_done = false, peer_connected = false;
  std::atomic<bool> stop_peer{false};
  uint64_t app_close_st = 0;
};
World* W;

// ---- stream matcher: is `rx` a (prefix of a) concatenation of accepted payloads respecting per-thread and real-time order?
struct Matcher
{
  const std::string& rx;
  std::vector<std::vector<const Payload*>> q; // accepted payloads per thread
  std::map<std::vector<int>, bool> memo;
  bool requireComplete;
  std::string why;
  size_t bestPos = 0;
  Matcher(const std::string& r, bool rc) : rx(r), requireComplete(rc) {}
  bool bytes_match(const Payload* p, size_t pos, size_t n) const
  {
    for (size_t i = 0; i < n; i++)
      if ((unsigned char)rx[pos + i] != hx::keyed(p->key, i)) return false;
    return true;
  }
  bool go(std::vector<int>& idx, size_t pos)
  {
    if (pos > bestPos) bestPos = pos;
    if (pos == rx.size())
    {
      if (!requireComplete) return true;
      for (size_t t = 0; t < q.size(); t++) if (idx[t] < (int)q[t].size()) return false;
      return true;
    }
    auto it = memo.find(idx);
    if (it != memo.end()) return it->second;
    bool ok = false;
    for (size_t t = 0; t < q.size() && !ok; t++)
    {
      if (idx[t] >= (int)q[t].size()) continue;
      const Payload* y = q[t][idx[t]];
      // real-time order: every other thread's next unconsumed payload that RETURNED before y was INVOKED must precede y
      bool blocked = false;
      for (size_t u = 0; u < q.size(); u++)
        if (u != t && idx[u] < (int)q[u].size() && q[u][idx[u]]->sp.ret < y->sp.inv) blocked = true;
      if (blocked) continue;
      size_t left = rx.size() - pos;
      if (left >= y->size)
      {
        if (!bytes_match(y, pos, y->size)) continue;
        idx[t]++;
        ok = go(idx, pos + y->size);
        idx[t]--;
      }
      else
      {
        // stream ends inside this payload: admissible only as an early end
        if (requireComplete) continue;
        if (bytes_match(y, pos, left)) { if (rx.size() > bestPos) bestPos = rx.size(); ok = true; }
      }
    }
    memo[idx] = ok;
    return ok;
  }
};

bool wait_until(std::function<bool()> pred, uint64_t timeout_ns, uint64_t poll_ns = 500000)
{
  uint64_t until = sim::now() + timeout_ns;
  while (!pred())
  {
    if (sim::now() >= until) return false;
    sim::sleep_ns(poll_ns);
  }
  return true;
}
} // namespace

extern "C" HarnessInfo harness_info() { return {"c01_tcp", "C01", 30}; }
extern "C" void harness_preinit() { tls::preinit(); }

extern "C" void harness_run()
{
  iora::core::Logger::setLevel(iora::core::Logger::Level::Fatal);
  World w;
  W = &w;
  std::string mode = sim::mode();
  w.tls = mode == "tls";
  bool th = hx::thorough();
  if (w.tls) tls::init_deterministic(sim::seed());

  // ---- draw the world
  static const size_t bufs[] = {65536, 1, 7, 64, 1000, 4096, 262144};
  static const size_t msss[] = {1460, 1, 3, 100, 65536, 536};
  sim::net::NetConfig nc;
  nc.sndbuf = bufs[sim::draw(7)];
  nc.rcvbuf = bufs[sim::draw(7)];
  if (w.tls) { nc.sndbuf = std::max<size_t>(nc.sndbuf, 64); nc.rcvbuf = std::max<size_t>(nc.rcvbuf, 64); } // TLS records over 1-byte windows cost too many steps
  nc.mss = msss[sim::draw(6)];
  static const uint64_t lats[] = {50000, 1000, 500000, 5000000};
  nc.latency_ns = lats[sim::draw(4)];
  nc.jitter_ns = sim::draw(2) ? nc.latency_ns / 2 : 0;
  static const unsigned sr[] = {0, 0, 100, 500};
  nc.short_read_permille = sr[sim::draw(4)];
  nc.short_write_permille = sr[sim::draw(4)];
  nc.wr_threshold_third = (unsigned)sim::draw(2);
  nc.epoll_truncate_permille = sim::draw(4) == 3 ? 300 : 0;
  nc.eintr_ppm = sim::draw(4) == 3 ? 20000 : 0;
  nc.connect_immediate_permille = sim::draw(4) == 3 ? 500 : 0;
  nc.tap = w.tls;
  TransportConfig tc;
  tc.useEdgeTriggered = sim::draw(2) == 0;
  tc.batching.enabled = sim::draw(3) == 2;
  static const size_t chunks[] = {65536, 1, 16, 1000, 4096};
  tc.ioReadChunk = chunks[sim::draw(5)];
  if (w.tls && tc.ioReadChunk < 16) tc.ioReadChunk = 16;
  static const size_t wqs[] = {1024, 1024, 1024, 4, 16};
  tc.maxWriteQueue = wqs[sim::draw(5)];
  tc.gcInterval = std::chrono::seconds(5);
  w.iora_server = sim::draw(2) == 0;
  if (w.tls)
  {
    std::string cd = tls::repo_cert_dir();
    tc.serverTls.enabled = true;
    tc.serverTls.defaultMode = TlsMode::Server;
    tc.clientTls.defaultMode = TlsMode::Client;
    tc.serverTls.certFile = cd + "/server.pem";
    tc.serverTls.keyFile = cd + "/server.key";
    tc.clientTls.enabled = true;
    tc.clientTls.verifyPeer = false;
  }
  int nthr = 1 + (int)sim::draw(th ? 4 : 3);
  size_t budget = th ? 400000 : 120000;
  if (nc.sndbuf <= 7 || nc.mss <= 3 || nc.rcvbuf <= 7) budget = th ? 6000 : 2500; // tiny windows: every byte costs scheduling points
  else if (nc.sndbuf <= 64 || nc.rcvbuf <= 64) budget = std::min<size_t>(budget, 100000); // 64-byte windows: thousands of round trips per 100 KB
  if (w.tls) budget = std::min<size_t>(budget, th ? 150000 : 50000);
  w.plan.resize(nthr);
  size_t totalPlanned = 0;
  for (int t = 0; t < nthr; t++)
  {
    int n = 1 + (int)sim::draw(th ? 40 : 14);
    for (int i = 0; i < n; i++)
    {
      size_t base;
      switch (sim::draw(8))
      {
      case 0: base = 1; break;
      case 1: base = 2 + sim::draw(30); break;
      case 2: base = nc.mss; break;
      case 3: base = nc.sndbuf; break;
      case 4: base = tc.ioReadChunk; break;
      case 5: base = nc.sndbuf * (2 + sim::draw(3)); break;
      case 6: base = 1 + sim::draw(5000); break;
      default: base = 100 + sim::draw(400); break;
      }
      long adj = (long)sim::draw(3) - 1;
      size_t sz = (size_t)std::max<long>(1, (long)base + adj);
      sz = std::min<size_t>(sz, budget / 3 + 1);
      if (totalPlanned + sz > budget) sz = std::max<size_t>(1, std::min<size_t>(sz, 1 + sim::draw(64)));
      Payload p;
      p.thr = t;
      p.seq = i;
      p.size = sz;
      p.key = ((uint64_t)(t + 1) << 32) | (uint64_t)i;
      w.plan[t].push_back(p);
      totalPlanned += sz;
    }
  }
  size_t peerBytes = sim::draw(3) == 0 ? 0 : 1 + sim::draw(std::min<size_t>(budget, 30000));
  w.peer_stream = hx::keyed_bytes(0xBEEF, peerBytes);
  int endMode = (int)sim::draw(8); // 0/1/6/7 complete then app close, 2 app close at once, 3 peer RST after k, 4 peer close after k, 5 stop() at once
  if (endMode >= 6) endMode = 0;
  bool peerHalfClose = sim::draw(4) == 3;
  size_t abortAfter = sim::draw(totalPlanned + 1);
  std::vector<uint32_t> pchunk(32), ppause(32), rchunk(32);
  for (int i = 0; i < 32; i++)
  {
    static const uint32_t cs[] = {1, 7, 100, 1460, 5000, 65536};
    pchunk[i] = cs[sim::draw(6)];
    rchunk[i] = cs[sim::draw(6)];
    static const uint32_t ps[] = {0, 0, 50, 1000, 20000};
    ppause[i] = ps[sim::draw(5)];
  }
  size_t earlySends = sim::draw(2) ? sim::draw(4) : 0;
  uint64_t readerStallAt = sim::draw(3) == 2 ? sim::draw(totalPlanned + 1) : UINT64_MAX;
  uint64_t readerStallNs = 1000000ull * (1 + sim::draw(300));
  std::vector<uint32_t> sgap(16);
  for (auto& g : sgap) { static const uint32_t gs[] = {0, 0, 0, 30, 2000}; g = gs[sim::draw(5)]; }
  sim::notef("%s role=%s sndbuf=%zu rcvbuf=%zu mss=%zu lat=%lluus shortR=%u shortW=%u ET=%d batch=%d chunk=%zu maxWQ=%zu senders=%d planned=%zuB peerBytes=%zu endMode=%d halfClose=%d abortAfter=%zu readerStall@%lld",
             w.tls ? "TLS" : "plain", w.iora_server ? "iora-server" : "iora-client", nc.sndbuf, nc.rcvbuf, nc.mss, (unsigned long long)nc.latency_ns / 1000,
             nc.short_read_permille, nc.short_write_permille, tc.useEdgeTriggered, tc.batching.enabled, tc.ioReadChunk, tc.maxWriteQueue, nthr, totalPlanned, peerBytes,
             endMode, peerHalfClose, abortAfter, readerStallAt == UINT64_MAX ? -1ll : (long long)readerStallAt);
  for (int t = 0; t < nthr; t++)
  {
    std::string l = "sender " + std::to_string(t) + " sizes:";
    for (auto& p : w.plan[t]) l += " " + std::to_string(p.size);
    sim::notef("%s", l.c_str());
  }
  hx::SchedOpts so;
  so.stall_max_ns = 3000000;
  sim::Config cfg = hx::draw_sched(so);
  cfg.max_steps = 6000000;
  sim::begin(cfg);
  sim::net::configure(nc);

  // ---- iora transport
  w.tr = Transport::tcp(tc);
  auto announce = [&](SessionId sid)
  {
    std::lock_guard<std::mutex> g(w.mx);
    if (w.sid == 0) w.sid = sid;
    if (sid == w.sid) { w.announced = true; w.cv.notify_all(); }
  };
  w.tr->onAccept([&](SessionId sid, const TransportAddress&)
  {
    if (!w.tls) announce(sid);
    else { std::lock_guard<std::mutex> g(w.mx); if (w.sid == 0) w.sid = sid; }
  });
  w.tr->onConnect([&](SessionId sid, const TransportAddress&) { announce(sid); });
  w.tr->onData([&](SessionId sid, iora::core::BufferView d, std::chrono::steady_clock::time_point)
  {
    std::lock_guard<std::mutex> g(w.mx);
    if (sid != w.sid) return;
    if (w.close_st) w.data_after_close = true;
    w.inbound.append((const char*)d.data(), d.size());
  });
  w.tr->onClose([&](SessionId sid, const TransportErrorInfo& e)
  {
    std::lock_guard<std::mutex> g(w.mx);
    if (sid != w.sid && w.sid != 0) return;
    if (w.sid == 0) w.sid = sid;
    if (w.close_st) sim::fail("c01-double-close", "second close callback for the session");
    w.close_st = sim::stamp();
    w.close_code = (int)e.code;
    w.cv.notify_all();
  });
  int plfd = -1;
  auto sr0 = w.tr->start();
  if (sr0.isErr()) sim::fail("harness", "transport start failed: %s", sr0.error().message.c_str());
  if (w.iora_server)
  {
    auto lr = w.tr->addListener("127.0.0.1", 5000, w.tls ? TlsMode::Server : TlsMode::None);
    if (lr.isErr()) sim::fail("harness", "addListener failed");
  }
  else
  {
    plfd = peer::listen_on("10.0.0.2", 6000);
    if (plfd < 0) sim::fail("harness", "peer listen failed");
  }

  // ---- peer thread
  std::thread peerThr([&]
  {
    sim::name_thread("peer");
    int fd = -1;
    if (w.iora_server)
    {
      for (int a = 0; a < 50 && fd < 0; a++) { fd = peer::connect_to("127.0.0.1", 5000, 2000000000ull); if (fd < 0) sim::sleep_ns(1000000); }
    }
    else fd = peer::accept_one(plfd, 20000000000ull);
    if (fd < 0) { w.peer_done = true; return; }
    w.peer_connected = true;
    SSL_CTX* ctx = nullptr;
    SSL* ssl = nullptr;
    if (w.tls)
    {
      std::string cd = tls::repo_cert_dir();
      ctx = w.iora_server ? tls::client_ctx() : tls::server_ctx(cd + "/server.pem", cd + "/server.key");
      ssl = SSL_new(ctx);
      SSL_set_mode(ssl, SSL_MODE_ENABLE_PARTIAL_WRITE | SSL_MODE_ACCEPT_MOVING_WRITE_BUFFER);
      SSL_set_fd(ssl, fd);
      peer::set_rcvtimeo(fd, 20000000000ull);
      int rc = w.iora_server ? SSL_connect(ssl) : SSL_accept(ssl);
      if (rc != 1) { w.peer_err = true; SSL_free(ssl); SSL_CTX_free(ctx); ::close(fd); w.peer_done = true; return; }
    }
    size_t ci = 0, ri = 0;
    uint64_t nextTx = sim::now();
    uint64_t stallUntil = 0;
    bool stalledOnce = false;
    std::string buf;
    for (;;)
    {
      if (w.stop_peer.load()) break;
      // write step
      if (w.peer_tx < w.peer_stream.size() && sim::now() >= nextTx)
      {
        size_t n = std::min<size_t>(pchunk[ci % 32], w.peer_stream.size() - w.peer_tx);
        peer::set_sndtimeo(fd, 20000000ull);
        long k;
        if (ssl)
        {
          k = SSL_write(ssl, w.peer_stream.data() + w.peer_tx, (int)n);
          if (k <= 0) { int e = SSL_get_error(ssl, (int)k); if (e == SSL_ERROR_WANT_WRITE || e == SSL_ERROR_WANT_READ) k = 0; else { w.peer_err = true; break; } }
        }
        else
        {
          k = ::send(fd, w.peer_stream.data() + w.peer_tx, n, MSG_NOSIGNAL);
          if (k < 0) { if (errno == EAGAIN) k = 0; else { w.peer_err = true; break; } }
        }
        w.peer_tx += (size_t)k;
        nextTx = sim::now() + (uint64_t)ppause[ci % 32] * 1000ull;
        ci++;
      }
      else if (w.peer_tx == w.peer_stream.size() && peerHalfClose && !w.peer_fin_sent)
      {
        if (ssl) SSL_shutdown(ssl);
        ::shutdown(fd, SHUT_WR);
        w.peer_fin_sent = true;
      }
      // read step
      if (!stalledOnce && w.peer_rx.size() >= readerStallAt) { stalledOnce = true; stallUntil = sim::now() + readerStallNs; sim::count("c01.reader_stall", 1); }
      if (sim::now() < stallUntil) { sim::sleep_ns(std::min<uint64_t>(stallUntil - sim::now(), 1000000)); continue; }
      size_t want = rchunk[ri++ % 32];
      buf.resize(want);
      peer::set_rcvtimeo(fd, 300000 + (uint64_t)ppause[ri % 32] * 1000ull);
      long n;
      if (ssl)
      {
        n = SSL_read(ssl, &buf[0], (int)want);
        if (n <= 0)
        {
          int e = SSL_get_error(ssl, (int)n);
          if (e == SSL_ERROR_WANT_READ || e == SSL_ERROR_WANT_WRITE) n = -2;
          else if (e == SSL_ERROR_ZERO_RETURN) n = 0;
          else if (e == SSL_ERROR_SYSCALL && errno == 0) n = 0; // unexpected EOF without close_notify
          else n = -1;
        }
      }
      else
      {
        n = ::recv(fd, &buf[0], want, 0);
        if (n < 0) n = (errno == EAGAIN || errno == EWOULDBLOCK) ? -2 : -1;
      }
      if (n > 0)
      {
        w.peer_rx.append(buf.data(), (size_t)n);
        if ((endMode == 3 || endMode == 4) && w.peer_rx.size() >= abortAfter)
        {
          w.peer_aborted = true;
          if (ssl) { SSL_free(ssl); ssl = nullptr; }
          if (endMode == 3) peer::rst_close(fd); else ::close(fd);
          fd = -1;
          break;
        }
      }
      else if (n == 0) { w.peer_eof = true; break; }
      else if (n == -1) { w.peer_err = true; break; }
    }
    if (ssl) SSL_free(ssl);
    if (ctx) SSL_CTX_free(ctx);
    if (fd >= 0) ::close(fd);
    w.peer_done = true;
  });

  // ---- iora side: connect (client role), wait for announce, senders
  if (!w.iora_server)
  {
    auto cr = w.tr->connect("10.0.0.2", 6000, w.tls ? TlsMode::Client : TlsMode::None);
    if (cr.isErr()) sim::fail("harness", "connect() refused");
    {
      std::lock_guard<std::mutex> g(w.mx);
      if (w.sid == 0) w.sid = cr.value();
    }
    // early sends: issued on the id returned by connect() while the TCP/TLS handshake is still in progress
    for (size_t i = 0; i < earlySends && i < w.plan[0].size(); i++)
    {
      Payload& p = w.plan[0][i];
      std::string bytes = hx::keyed_bytes(p.key, p.size);
      p.sp.inv = sim::stamp();
      p.accepted = w.tr->send(w.sid, bytes.data(), bytes.size());
      p.sp.ret = sim::stamp();
      sim::count("c01.early_sends", 1);
    }
  }
  {
    std::unique_lock<std::mutex> lk(w.mx);
    if (!w.cv.wait_for(lk, std::chrono::seconds(60), [&] { return w.announced || w.close_st != 0; }))
      sim::fail("c01-no-announce", "session neither announced nor closed within 60 simulated seconds (peer_connected=%d)", w.peer_connected);
  }
  bool everAnnounced = w.announced;
  std::vector<std::thread> senders;
  if (everAnnounced)
    for (int t = 0; t < nthr; t++)
      senders.emplace_back([&, t]
      {
        char nm[16];
        snprintf(nm, sizeof nm, "send%d", t);
        sim::name_thread(nm);
        for (size_t i = (t == 0 && !w.iora_server) ? std::min(earlySends, w.plan[0].size()) : 0; i < w.plan[t].size(); i++)
        {
          Payload& p = w.plan[t][i];
          std::string bytes = hx::keyed_bytes(p.key, p.size);
          p.sp.inv = sim::stamp();
          if (i % 3 == 2)
          {
            bool ok = false;
            w.tr->sendAsync(w.sid, bytes.data(), bytes.size(), [&ok](SessionId, const SendResult& r) { ok = r.isOk(); });
            p.accepted = ok;
          }
          else p.accepted = w.tr->send(w.sid, bytes.data(), bytes.size());
          p.sp.ret = sim::stamp();
          uint32_t g = sgap[(t * 7 + i) % 16];
          if (g) sim::sleep_ns((uint64_t)g * 1000ull);
        }
      });
  for (auto& t : senders) t.join();
  size_t totalAccepted = 0;
  for (auto& v : w.plan) for (auto& p : v) if (p.accepted) totalAccepted += p.size;

  // ---- ending
  sim::Config quiet = cfg;
  quiet.stall_ppm = 0;
  quiet.create_stall_permille = 0;
  bool waitedComplete = false, outboundComplete = false, inboundComplete = false;
  if (everAnnounced && (endMode == 0 || endMode == 1))
  {
    sim::reconfigure(quiet); // faults stop: bounded liveness from here
    waitedComplete = true;
    outboundComplete = wait_until([&] { return w.peer_rx.size() >= totalAccepted || w.close_st != 0 || w.peer_done; }, 120000000000ull);
    inboundComplete = wait_until([&] { std::lock_guard<std::mutex> g(w.mx); return w.inbound.size() >= w.peer_stream.size() || w.close_st != 0 || w.peer_done; }, 120000000000ull);
    if (!w.close_st)
    {
      // both directions are expected complete while the session is still open
      if (w.peer_rx.size() < totalAccepted && !w.peer_done)
        sim::fail("c01-stalled-open", "session open, faults stopped, but the peer has only %zu of %zu accepted bytes after 120 simulated seconds", w.peer_rx.size(), totalAccepted);
      std::lock_guard<std::mutex> g(w.mx);
      if (w.inbound.size() < w.peer_stream.size() && !w.peer_done && w.peer_tx == w.peer_stream.size())
        sim::fail("c01-stalled-open-inbound", "session open, faults stopped, but only %zu of %zu peer bytes were delivered after 120 simulated seconds", w.inbound.size(), w.peer_stream.size());
    }
    w.app_close_st = sim::stamp();
    w.tr->close(w.sid);
  }
  else if (everAnnounced && endMode == 2)
  {
    w.app_close_st = sim::stamp();
    w.tr->close(w.sid);
  }
  if (endMode != 5 && everAnnounced)
  {
    sim::reconfigure(quiet);
    std::unique_lock<std::mutex> lk(w.mx);
    // in modes 3/4 the peer ends the session; in all modes a close callback must eventually arrive
    if (!w.cv.wait_for(lk, std::chrono::seconds(120), [&] { return w.close_st != 0; }))
    {
      // the peer may legitimately never abort (abortAfter beyond what was sent): then close ourselves
      lk.unlock();
      if (endMode == 3 || endMode == 4)
      {
        w.app_close_st = sim::stamp();
        w.tr->close(w.sid);
        lk.lock();
        if (!w.cv.wait_for(lk, std::chrono::seconds(60), [&] { return w.close_st != 0; })) sim::fail("c01-no-close", "no close callback 60 s after close()");
      }
      else sim::fail("c01-no-close", "no close callback within 120 simulated seconds after close()");
    }
  }
  if (endMode == 5) w.app_close_st = sim::stamp();
  w.tr->stop();
  w.stop_peer.store(true);
  peerThr.join();
  if (plfd >= 0) ::close(plfd);
  if (everAnnounced && !w.close_st) sim::fail("c01-no-close", "announced session got no close callback although the transport was stopped in an orderly way");

  // ---- oracles
  if (w.data_after_close) sim::fail("c01-data-after-close", "data callback after the close callback");
  // (b) inbound: prefix always; equality when the peer half-closed gracefully after writing everything and iora closed for PeerClosed
  {
    size_t n = w.inbound.size();
    // (with TLS a record may be on its way although SSL_write has not reported it yet, so compare with the intended stream)
    if ((!w.tls && n > w.peer_tx) || n > w.peer_stream.size() || w.inbound.compare(0, n, w.peer_stream, 0, n) != 0)
    {
      size_t d = 0;
      while (d < n && d < w.peer_stream.size() && w.inbound[d] == w.peer_stream[d]) d++;
      sim::fail("c01-inbound-corrupt", "data callbacks delivered %zu bytes that are not a prefix of the %zu bytes the peer wrote (first difference at offset %zu)", n, w.peer_tx, d);
    }
    bool peerGraceful = w.peer_fin_sent && w.peer_tx == w.peer_stream.size() && !w.peer_aborted;
    bool localEndedFirst = w.app_close_st && w.app_close_st < w.close_st;
    if (peerGraceful && w.close_code == (int)TransportError::PeerClosed && !localEndedFirst && n != w.peer_stream.size())
      sim::fail("c01-inbound-lost-tail", "peer wrote %zu bytes and half-closed; close(PeerClosed) was reported after only %zu bytes were delivered", w.peer_stream.size(), n);
  }
  // (a) outbound
  {
    bool complete = waitedComplete && outboundComplete && w.peer_rx.size() >= totalAccepted && totalAccepted > 0 &&
                    // the session was still open when everything had arrived
                    true;
    Matcher m(w.peer_rx, false);
    m.q.resize(nthr);
    for (int t = 0; t < nthr; t++) for (auto& p : w.plan[t]) if (p.accepted) m.q[t].push_back(&p);
    std::vector<int> idx(nthr, 0);
    if (!m.go(idx, 0))
      sim::fail("c01-outbound-corrupt", "the %zu bytes read by the peer are not a prefix of any order-respecting concatenation of the %zu accepted bytes (longest consistent prefix %zu)",
                w.peer_rx.size(), totalAccepted, m.bestPos);
    if (w.peer_rx.size() > totalAccepted) sim::fail("c01-outbound-dup", "peer read %zu bytes but only %zu were accepted", w.peer_rx.size(), totalAccepted);
    (void)complete;
  }
  // (c) TLS: no keyed plaintext window on the wire, first record is a handshake record
  if (w.tls && everAnnounced)
  {
    for (auto& c : sim::net::connections())
      for (const std::string* s : {&c.a_sent, &c.b_sent})
      {
        if (!s->empty() && (unsigned char)(*s)[0] != 0x16) sim::fail("c01-tls-cleartext", "first wire byte of a TLS session is 0x%02x, not a handshake record", (unsigned char)(*s)[0]);
        for (int t = 0; t < nthr; t++)
          for (auto& p : w.plan[t])
            if (p.accepted && p.size >= 12)
            {
              std::string win = hx::keyed_bytes(p.key, 12);
              if (s->find(win) != std::string::npos) sim::fail("c01-tls-cleartext", "12-byte plaintext window of payload (%d,%d) found on the wire of a TLS session", p.thr, p.seq);
            }
        if (w.peer_stream.size() >= 12 && s->find(w.peer_stream.substr(0, 12)) != std::string::npos) sim::fail("c01-tls-cleartext", "peer plaintext found on the wire");
      }
  }
  sim::count("c01.accepted_bytes", totalAccepted);
  sim::count("c01.peer_rx_bytes", w.peer_rx.size());
  sim::count("c01.inbound_bytes", w.inbound.size());
  sim::count("c01.complete_runs", (waitedComplete && w.peer_rx.size() == totalAccepted) ? 1 : 0);
  sim::count("c01.early_end_runs", w.peer_rx.size() < totalAccepted ? 1 : 0);
  sim::count(("c01.close_code_" + std::to_string(w.close_code)).c_str(), 1);
  sim::state_mix((uint64_t)w.close_code * 1315423911u + (w.peer_rx.size() == totalAccepted) * 7 + endMode * 31 + (uint64_t)nthr);
  w.tr.reset();
  sim::finish_ok();
}
