// HTTP/1.1 message generator and an independent reference framer (nothing here uses iora's parsers).
#pragma once
#include "common.h"
#include <map>
#include <string>
#include <vector>

namespace hgen
{
inline std::string lower(std::string s) { for (auto& c : s) c = (char)tolower((unsigned char)c); return s; }
inline std::string hexn(size_t v, bool upper)
{
  char b[32];
  snprintf(b, sizeof b, upper ? "%zX" : "%zx", v);
  return b;
}
// body with attributable, printable-free content (may contain CR, LF, NUL - framing must not look into it)
inline std::string body_bytes(uint64_t key, size_t n, bool texty)
{
  std::string s = hx::keyed_bytes(key, n);
  if (texty) for (auto& c : s) c = (char)('a' + ((unsigned char)c % 26));
  return s;
}

enum Framing { F_NONE, F_CL, F_CHUNKED, F_CLOSE /* responses only */ };

struct ChunkOpts
{
  std::vector<size_t> sizes; // chunk sizes (sum = body size); empty body = no data chunk
  bool upperHex = false;
  int leadingZeros = 0;
  bool extensions = false;   // ";name=value" / ";flag" after sizes
  bool trailers = false;     // trailer fields after the last chunk
  int lastChunkZeros = 1;    // "0", "00", "000"
};
inline std::string encode_chunked(const std::string& body, const ChunkOpts& o)
{
  std::string out;
  size_t off = 0;
  int i = 0;
  for (size_t sz : o.sizes)
  {
    if (sz == 0) continue;
    out += std::string((size_t)o.leadingZeros, '0') + hexn(sz, o.upperHex);
    if (o.extensions) out += (i % 2) ? ";ext=\"v;1\"" : ";flag";
    out += "\r\n";
    out.append(body, off, sz);
    out += "\r\n";
    off += sz;
    i++;
  }
  out += std::string((size_t)o.lastChunkZeros, '0');
  if (o.extensions) out += ";last=1";
  out += "\r\n";
  if (o.trailers) out += "X-Trailer-One: t1\r\nX-Trailer-Two: t2\r\n";
  out += "\r\n";
  return out;
}
// split `total` into chunk sizes according to a drawn pattern
inline std::vector<size_t> chunk_pattern(size_t total, unsigned pattern, uint64_t r)
{
  std::vector<size_t> v;
  if (total == 0) return v;
  switch (pattern % 6)
  {
  case 0: v.push_back(total); break;                                   // one chunk
  case 1: for (size_t i = 0; i < total; i++) v.push_back(1); break;    // all 1-byte chunks
  case 2: { size_t a = 1 + r % total; v.push_back(a); if (total > a) v.push_back(total - a); break; }
  case 3: { size_t left = total; size_t k = 15; while (left) { size_t c = std::min(left, k); v.push_back(c); left -= c; k = k == 15 ? 16 : k == 16 ? 17 : 15; } break; } // around hex digit boundaries
  case 4: { size_t left = total; uint64_t x = r | 1; while (left) { x = x * 6364136223846793005ull + 1442695040888963407ull; size_t c = 1 + (size_t)((x >> 33) % std::min<size_t>(left, 300)); v.push_back(c); left -= c; } break; }
  default: { size_t left = total; while (left) { size_t c = std::min<size_t>(left, 255); v.push_back(c); left -= c; } break; }
  }
  if (v.size() > 400) { v.clear(); size_t left = total; while (left) { size_t c = std::min<size_t>(left, total / 300 + 1); v.push_back(c); left -= c; } }
  return v;
}

// ---------------------------------------------------------------- reference framer for RESPONSES on a tapped byte stream
struct RefResponse
{
  int status = 0;
  std::string version;
  std::vector<std::pair<std::string, std::string>> headers; // names lower-cased
  std::string body;
  size_t begin = 0, end = 0; // byte range in the stream
  bool complete = false;
  bool closeDelimited = false;
  std::string error;
  std::string header(const std::string& n) const
  {
    for (auto& h : headers) if (h.first == n) return h.second;
    return "";
  }
  int count(const std::string& n) const { int c = 0; for (auto& h : headers) if (h.first == n) c++; return c; }
};
// Parses one response starting at `pos`. `headMethod`: the matching request was HEAD.
inline RefResponse ref_parse_response(const std::string& s, size_t pos, bool headMethod, bool streamClosed)
{
  RefResponse r;
  r.begin = pos;
  size_t he = s.find("\r\n\r\n", pos);
  if (he == std::string::npos) { r.error = "incomplete header"; return r; }
  size_t le = s.find("\r\n", pos);
  std::string sl = s.substr(pos, le - pos);
  if (sl.compare(0, 5, "HTTP/") != 0 || sl.size() < 12) { r.error = "bad status line '" + sl.substr(0, 40) + "'"; return r; }
  r.version = sl.substr(5, 3);
  r.status = atoi(sl.c_str() + 9);
  size_t p = le + 2;
  while (p < he + 2)
  {
    size_t e = s.find("\r\n", p);
    std::string line = s.substr(p, e - p);
    p = e + 2;
    size_t c = line.find(':');
    if (c == std::string::npos) { r.error = "header line without colon"; return r; }
    std::string n = lower(line.substr(0, c)), v = line.substr(c + 1);
    v.erase(0, v.find_first_not_of(" \t"));
    v.erase(v.find_last_not_of(" \t") + 1);
    r.headers.push_back({n, v});
  }
  size_t bs = he + 4;
  bool noBody = headMethod || r.status / 100 == 1 || r.status == 204 || r.status == 304;
  std::string te = lower(r.header("transfer-encoding"));
  if (noBody) { r.end = bs; r.complete = true; return r; }
  if (te.find("chunked") != std::string::npos)
  {
    size_t q = bs;
    for (;;)
    {
      size_t e = s.find("\r\n", q);
      if (e == std::string::npos) { r.error = "incomplete chunk size"; return r; }
      std::string szl = s.substr(q, e - q);
      char* endp = nullptr;
      unsigned long long sz = strtoull(szl.c_str(), &endp, 16);
      if (endp == szl.c_str()) { r.error = "bad chunk size"; return r; }
      q = e + 2;
      if (sz == 0)
      {
        for (;;) // trailers
        {
          size_t te2 = s.find("\r\n", q);
          if (te2 == std::string::npos) { r.error = "incomplete trailer"; return r; }
          bool empty = te2 == q;
          q = te2 + 2;
          if (empty) break;
        }
        r.end = q;
        r.complete = true;
        return r;
      }
      if (q + sz + 2 > s.size()) { r.error = "incomplete chunk"; return r; }
      r.body.append(s, q, (size_t)sz);
      q += (size_t)sz + 2;
    }
  }
  if (r.count("content-length") >= 1)
  {
    std::string cl = r.header("content-length");
    if (cl.empty() || cl.find_first_not_of("0123456789") != std::string::npos) { r.error = "bad content-length '" + cl + "'"; return r; }
    size_t n = (size_t)strtoull(cl.c_str(), nullptr, 10);
    if (bs + n > s.size()) { r.error = "body shorter than Content-Length (" + std::to_string(s.size() - bs) + " of " + cl + ")"; r.body = s.substr(bs); return r; }
    r.body = s.substr(bs, n);
    r.end = bs + n;
    r.complete = true;
    return r;
  }
  // close-delimited
  r.closeDelimited = true;
  r.body = s.substr(bs);
  r.end = s.size();
  r.complete = streamClosed;
  if (!streamClosed) r.error = "close-delimited body on an open connection";
  return r;
}
} // namespace hgen
