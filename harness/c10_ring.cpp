// C10 (ring buffer part): iora::core::RingBuffer / DynamicRingBuffer with exactly one producer and one consumer thread.
// Oracles: total FIFO order, exactly-once, occupancy <= capacity; in the TSan flavour (with a scheduling point before every
// atomic operation) additionally: no data race under the C++ memory model.
#include "common.h"
#include "iora/core/ring_buffer.hpp"

#include <atomic>
#include <memory>
#include <thread>
#include <vector>

using namespace iora::core;

namespace
{
struct Item { uint64_t seq = 0; uint64_t inv = ~0ull; };
struct POp { int kind; unsigned n; };
struct IRing
{
  virtual ~IRing() {}
  virtual bool push(const Item& i) = 0;
  virtual bool pushMove(Item&& i) = 0;
  virtual size_t pushBatch(const Item* p, size_t n) = 0;
  virtual bool pop(Item& o) = 0;
  virtual bool peek(Item& o) = 0;
  virtual size_t popBatch(Item* p, size_t n) = 0;
  virtual size_t size() = 0;
  virtual size_t cap() = 0;
  virtual size_t resize(size_t) { return 0; }
};
template <class R> struct Wrap : IRing
{
  R r;
  template <class... A> explicit Wrap(A&&... a) : r(std::forward<A>(a)...) {}
  bool push(const Item& i) override { return r.tryPush(i); }
  bool pushMove(Item&& i) override { return r.tryPush(std::move(i)); }
  size_t pushBatch(const Item* p, size_t n) override { return r.tryPushBatch(p, n); }
  bool pop(Item& o) override { return r.tryPop(o); }
  bool peek(Item& o) override { return r.peek(o); }
  size_t popBatch(Item* p, size_t n) override { return r.tryPopBatch(p, n); }
  size_t size() override { return r.size(); }
  size_t cap() override { return r.capacity(); }
};
struct WrapDyn : Wrap<DynamicRingBuffer<Item>>
{
  explicit WrapDyn(size_t c) : Wrap<DynamicRingBuffer<Item>>(c) {}
  size_t resize(size_t n) override { return r.resize(n); }
};
} // namespace

extern "C" HarnessInfo harness_info() { return {"c10_ring", "C10", 15}; }

extern "C" void harness_run()
{
  bool th = hx::thorough();
  int kind = (int)sim::draw(5); // 0..2 static 2/4/8, 3..4 dynamic
  size_t dynCap = 1 + sim::draw(8);
  size_t total = 20 + sim::draw(th ? 400 : 120);
  std::vector<POp> pplan(24), cplan(24);
  for (auto& o : pplan) { o.kind = (int)sim::draw(3); o.n = 1 + (unsigned)sim::draw(6); }
  for (auto& o : cplan) { o.kind = (int)sim::draw(4); o.n = 1 + (unsigned)sim::draw(6); }
  bool doResize = kind >= 3 && sim::draw(3) == 0;
  size_t resizeAt = total / 2, resizeTo = 8 + sim::draw(9); // never below the occupancy: resize() drops the oldest items otherwise
  hx::SchedOpts so;
  so.allow_stalls = false;
  so.allow_spurious = false;
  sim::Config cfg = hx::draw_sched(so);
  cfg.atomic_points = true;
  if (cfg.strategy == sim::RR) cfg.strategy = sim::RANDOM; // two pollers: round-robin explores nothing
  cfg.max_steps = 3000000;
  std::unique_ptr<IRing> ring;
  switch (kind)
  {
  case 0: ring.reset(new Wrap<RingBuffer<Item, 2>>()); break;
  case 1: ring.reset(new Wrap<RingBuffer<Item, 4>>()); break;
  case 2: ring.reset(new Wrap<RingBuffer<Item, 8>>()); break;
  default: ring.reset(new WrapDyn(dynCap)); break;
  }
  size_t cap = ring->cap();
  sim::notef("%s capacity=%zu items=%zu resize=%d(to %zu)", kind <= 2 ? "RingBuffer" : "DynamicRingBuffer", cap, total, doResize, resizeTo);
  sim::begin(cfg);

  std::vector<uint64_t> got;
  got.reserve(total);
  std::atomic<bool> producerDone{false};
  std::atomic<int> phase{0};      // resize handshake: both sides quiescent (the documented contract of resize())
  std::atomic<int> consumerParked{0};
  size_t maxSizeP = 0, maxSizeC = 0; // per thread
  std::thread prod([&]
  {
    sim::name_thread("producer");
    uint64_t next = 1;
    size_t oi = 0;
    int spins = 0;
    while (next <= total)
    {
      if (doResize && next == resizeAt && phase.load() == 0)
      {
        // quiesce: ask the consumer to stop, wait until it has, resize, resume
        phase.store(1);
        while (consumerParked.load() == 0) std::this_thread::yield();
        size_t before = ring->size();
        size_t dropped = ring->resize(resizeTo);
        cap = ring->cap();
        if (dropped != (before > cap ? before - cap : 0)) sim::fail("ring-resize", "resize dropped %zu of %zu items with new capacity %zu", dropped, before, cap);
        if (dropped) sim::fail("harness", "resize plan dropped items");
        phase.store(2);
      }
      POp o = pplan[oi++ % pplan.size()];
      size_t pushed = 0;
      if (o.kind == 2)
      {
        Item batch[8];
        size_t n = std::min<size_t>(o.n, total - next + 1);
        for (size_t i = 0; i < n; i++) { batch[i].seq = next + i; batch[i].inv = ~(next + i); }
        pushed = ring->pushBatch(batch, n);
        if (pushed > n) sim::fail("ring-batch", "tryPushBatch reported %zu of %zu", pushed, n);
      }
      else
      {
        Item it;
        it.seq = next;
        it.inv = ~next;
        pushed = (o.kind == 0 ? ring->push(it) : ring->pushMove(std::move(it))) ? 1 : 0;
      }
      next += pushed;
      size_t s = ring->size();
      if (s > maxSizeP) maxSizeP = s;
      if (!pushed) { std::this_thread::yield(); if (++spins > 2000000) sim::fail("ring-stuck", "producer cannot make progress"); }
    }
    producerDone.store(true);
  });
  std::thread cons([&]
  {
    sim::name_thread("consumer");
    size_t oi = 0;
    int spins = 0;
    for (;;)
    {
      if (phase.load() == 1) { consumerParked.store(1); while (phase.load() == 1) std::this_thread::yield(); consumerParked.store(0); }
      POp o = cplan[oi++ % cplan.size()];
      size_t n = 0;
      Item out[8];
      if (o.kind == 3)
      {
        Item pk;
        if (ring->peek(pk))
        {
          if (pk.inv != ~pk.seq) sim::fail("ring-torn", "peek returned a torn item (%llu/%llx)", (unsigned long long)pk.seq, (unsigned long long)pk.inv);
          if (pk.seq != got.size() + 1) sim::fail("ring-fifo", "peek saw item %llu, expected %zu", (unsigned long long)pk.seq, got.size() + 1);
        }
        continue;
      }
      if (o.kind == 2) n = ring->popBatch(out, std::min<size_t>(o.n, 8));
      else n = ring->pop(out[0]) ? 1 : 0;
      for (size_t i = 0; i < n; i++)
      {
        if (out[i].inv != ~out[i].seq) sim::fail("ring-torn", "popped a torn item (%llu/%llx)", (unsigned long long)out[i].seq, (unsigned long long)out[i].inv);
        if (out[i].seq != got.size() + 1)
          sim::fail("ring-fifo", "consumer got item %llu, expected %zu (lost, duplicated or reordered)", (unsigned long long)out[i].seq, got.size() + 1);
        got.push_back(out[i].seq);
      }
      size_t s = ring->size();
      if (s > maxSizeC) maxSizeC = s;
      if (got.size() >= total) break;
      if (!n)
      {
        if (producerDone.load() && ring->size() == 0 && got.size() < total) sim::fail("ring-lost", "producer finished, buffer empty, but only %zu of %zu items arrived", got.size(), total);
        std::this_thread::yield();
        if (++spins > 2000000) sim::fail("ring-stuck", "consumer cannot make progress");
      }
    }
  });
  prod.join();
  cons.join();
  Item extra;
  if (ring->pop(extra)) sim::fail("ring-dup", "an extra item %llu came out after all %zu items had been consumed", (unsigned long long)extra.seq, total);
  if (got.size() != total) sim::fail("ring-lost", "%zu of %zu items", got.size(), total);
  size_t maxCap = std::max(cap, ring->cap());
  if (kind >= 3 && doResize) maxCap = std::max<size_t>(maxCap, 16);
  size_t maxSizeSeen = std::max(maxSizeP, maxSizeC);
  if (maxSizeSeen > maxCap) sim::fail("ring-capacity", "size() returned %zu with capacity %zu", maxSizeSeen, maxCap);
  sim::count("ring.items", total);
  sim::count("ring.resized", doResize ? 1 : 0);
  sim::state_mix(total * 31 + cap * 7 + (uint64_t)kind);
  sim::finish_ok();
}
