// OpenSSL helpers for harness peers: deterministic randomness, contexts, blocking SSL I/O on simulated sockets.
#pragma once
#include "common.h"
#include <openssl/err.h>
#include <openssl/rand.h>
#include <openssl/ssl.h>
#include <string>

namespace tls
{
namespace detail
{
inline uint64_t& rng_state() { static uint64_t s = 0x1234; return s; }
inline int rnd_bytes(unsigned char* buf, int num)
{
  uint64_t& x = rng_state();
  for (int i = 0; i < num; i++)
  {
    x += 0x9e3779b97f4a7c15ull;
    uint64_t z = x;
    z = (z ^ (z >> 30)) * 0xbf58476d1ce4e5b9ull;
    z = (z ^ (z >> 27)) * 0x94d049bb133111ebull;
    buf[i] = (unsigned char)((z ^ (z >> 31)) >> 11);
  }
  return 1;
}
inline int rnd_status() { return 1; }
inline int rnd_seed(const void*, int) { return 1; }
inline int rnd_add(const void*, int, double) { return 1; }
inline void rnd_cleanup() {}
} // namespace detail

// Make every OpenSSL random byte a function of the run's seed (DESIGN.md §2.6, probe P7).
inline void init_deterministic(uint64_t seed)
{
  static RAND_METHOD m = {detail::rnd_seed, detail::rnd_bytes, detail::rnd_cleanup, detail::rnd_add, detail::rnd_bytes, detail::rnd_status};
  detail::rng_state() = seed * 0x9E3779B97F4A7C15ull + 77;
  RAND_set_rand_method(&m);
}

// certificate set committed under /verif/certs (see certs/gen.sh)
inline std::string cert_dir()
{
  const char* r = getenv("VERIF_ROOT");
  return std::string(r && *r ? r : "/verif") + "/certs";
}
inline std::string repo_cert_dir() { return cert_dir(); }

// Called once in the worker process, before any run is forked: loads OpenSSL's providers, algorithms and error strings so
// that the (expensive, lock-heavy) library initialisation is not repeated inside every simulated run.
inline void preinit()
{
  OPENSSL_init_ssl(OPENSSL_INIT_LOAD_SSL_STRINGS | OPENSSL_INIT_LOAD_CRYPTO_STRINGS, nullptr);
  SSL_CTX* s = SSL_CTX_new(TLS_server_method());
  if (s)
  {
    SSL_CTX_use_certificate_file(s, (cert_dir() + "/server.pem").c_str(), SSL_FILETYPE_PEM);
    SSL_CTX_use_PrivateKey_file(s, (cert_dir() + "/server.key").c_str(), SSL_FILETYPE_PEM);
    SSL_CTX_load_verify_locations(s, (cert_dir() + "/ca.pem").c_str(), nullptr);
    SSL* x = SSL_new(s);
    if (x) SSL_free(x);
    SSL_CTX_free(s);
  }
  SSL_CTX* c = SSL_CTX_new(TLS_client_method());
  if (c) SSL_CTX_free(c);
  ERR_clear_error();
}

inline SSL_CTX* server_ctx(const std::string& cert, const std::string& key)
{
  SSL_CTX* c = SSL_CTX_new(TLS_server_method());
  if (!c) return nullptr;
  if (SSL_CTX_use_certificate_file(c, cert.c_str(), SSL_FILETYPE_PEM) != 1 || SSL_CTX_use_PrivateKey_file(c, key.c_str(), SSL_FILETYPE_PEM) != 1)
  {
    SSL_CTX_free(c);
    return nullptr;
  }
  return c;
}
inline SSL_CTX* client_ctx()
{
  SSL_CTX* c = SSL_CTX_new(TLS_client_method());
  if (c) SSL_CTX_set_verify(c, SSL_VERIFY_NONE, nullptr);
  return c;
}
} // namespace tls
