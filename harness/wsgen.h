// Independent WebSocket (RFC 6455) frame encoder / decoder and message-stream generator for the C18 harness.
#pragma once
#include "common.h"
#include <openssl/sha.h>
#include <string>
#include <vector>

namespace wsg
{
enum { OP_CONT = 0, OP_TEXT = 1, OP_BIN = 2, OP_CLOSE = 8, OP_PING = 9, OP_PONG = 10 };
struct Frame
{
  bool fin = true;
  int opcode = OP_TEXT;
  bool masked = false;
  unsigned char key[4] = {0, 0, 0, 0};
  std::string payload;
};
inline std::string encode(const Frame& f)
{
  std::string o;
  o.push_back((char)((f.fin ? 0x80 : 0) | (f.opcode & 15)));
  size_t n = f.payload.size();
  unsigned char m = f.masked ? 0x80 : 0;
  if (n <= 125) o.push_back((char)(m | n));
  else if (n <= 0xFFFF) { o.push_back((char)(m | 126)); o.push_back((char)(n >> 8)); o.push_back((char)(n & 255)); }
  else { o.push_back((char)(m | 127)); for (int i = 7; i >= 0; i--) o.push_back((char)((uint64_t)n >> (i * 8))); }
  if (f.masked)
  {
    o.append((const char*)f.key, 4);
    for (size_t i = 0; i < n; i++) o.push_back((char)(f.payload[i] ^ f.key[i % 4]));
  }
  else o += f.payload;
  return o;
}
// 1 decoded, 0 incomplete, -1 malformed
inline int decode(const std::string& s, size_t& pos, Frame& f)
{
  if (s.size() - pos < 2) return 0;
  size_t p = pos;
  unsigned char b0 = (unsigned char)s[p++], b1 = (unsigned char)s[p++];
  if (b0 & 0x70) return -1;
  f.fin = b0 & 0x80;
  f.opcode = b0 & 15;
  f.masked = b1 & 0x80;
  uint64_t n = b1 & 0x7F;
  if (f.opcode >= 8 && (n > 125 || !f.fin)) return -1;
  if (n == 126) { if (s.size() - p < 2) return 0; n = ((unsigned char)s[p] << 8) | (unsigned char)s[p + 1]; p += 2; if (n < 126) return -1; /* RFC 6455 5.2: minimal encoding */ }
  else if (n == 127) { if (s.size() - p < 8) return 0; n = 0; for (int i = 0; i < 8; i++) n = (n << 8) | (unsigned char)s[p + (size_t)i]; p += 8; if (n <= 0xFFFF) return -1; }
  if (f.masked) { if (s.size() - p < 4) return 0; memcpy(f.key, s.data() + p, 4); p += 4; }
  if (n > (1ull << 32)) return -1;
  if (s.size() - p < n) return 0;
  f.payload.assign(s, p, (size_t)n);
  if (f.masked) for (size_t i = 0; i < f.payload.size(); i++) f.payload[i] = (char)(f.payload[i] ^ f.key[i % 4]);
  pos = p + (size_t)n;
  return 1;
}
inline std::string base64(const unsigned char* d, size_t n)
{
  static const char* t = "ABCDEFGHIJKLMNOPQRSTUVWXYZabcdefghijklmnopqrstuvwxyz0123456789+/";
  std::string o;
  for (size_t i = 0; i < n; i += 3)
  {
    unsigned v = d[i] << 16 | (i + 1 < n ? d[i + 1] << 8 : 0) | (i + 2 < n ? d[i + 2] : 0);
    o += t[(v >> 18) & 63];
    o += t[(v >> 12) & 63];
    o += i + 1 < n ? t[(v >> 6) & 63] : '=';
    o += i + 2 < n ? t[v & 63] : '=';
  }
  return o;
}
inline std::string accept_key(const std::string& key)
{
  std::string c = key + "258EAFA5-E914-47DA-95CA-C5AB0DC85B11";
  unsigned char h[20];
  SHA1((const unsigned char*)c.data(), c.size(), h);
  return base64(h, 20);
}

// ---- message streams
struct Msg { bool text = true; std::string payload; bool validUtf8 = true; };
struct Planned
{
  std::vector<Frame> frames;          // in wire order (data fragments, interleaved control frames, optional final CLOSE)
  std::vector<Msg> msgs;              // complete messages in order
  std::vector<std::string> pings;     // payloads of PING frames in order
  bool endsWithClose = false;
  int closeCode = 1000;
  std::string closeReason;
};
// valid UTF-8 text with multi-byte sequences (so that fragment and read boundaries fall inside code points)
inline std::string utf8_text(uint64_t key, size_t approx)
{
  static const char* pieces[] = {"a", "Z", "0", " ", "\xC3\xA9", "\xCE\xA9", "\xE2\x82\xAC", "\xE4\xB8\xAD", "\xF0\x9F\x98\x80", "\xF0\x90\x8D\x88", "\n", "~"};
  std::string s;
  uint64_t x = key | 1;
  while (s.size() < approx) { x = x * 6364136223846793005ull + 1442695040888963407ull; s += pieces[(x >> 33) % 12]; }
  return s;
}
inline std::string invalid_utf8(uint64_t key)
{
  static const char* bad[] = {"\xC0\xAF", "\xED\xA0\x80", "\xF4\x90\x80\x80", "\x80", "\xE2\x82", "\xFF", "ok\xC3"};
  return std::string("x") + bad[key % 7];
}
} // namespace wsg
