// simrt internals shared between core.cpp, net.cpp, fs.cpp, runner.cpp
#pragma once
#include "sim.h"
#include <dlfcn.h>
#include <map>
#include <string>

namespace simint
{
extern bool g_active;
extern thread_local int t_me;
inline bool on() { return g_active && t_me >= 0; }

enum BlockKind : int { B_NONE = 0, B_MUTEX, B_COND, B_RW, B_JOIN, B_SLEEP, B_FUTEX, B_FD, B_ONCE, B_STALL };

extern uint64_t g_now;           // simulated monotonic ns
void point(uint32_t tag);        // scheduling point
// Block the calling thread until someone marks it runnable or `until` (monotonic ns) passes.
// Returns true if it timed out.
bool block(BlockKind k, const void* on, uint64_t until, uint32_t tag, bool wall = false);
void wake_all(BlockKind k, const void* on);   // make every thread blocked on (k,on) runnable
void wake_fd_waiters();                        // make every B_FD thread runnable (they re-check)
void mix(uint64_t v);                          // event-log hash
void mix_ilv(uint64_t v);
uint64_t raw_draw(int stream, uint64_t n);

// time sources (net registers itself): earliest pending event, and a function firing everything <= g_now
typedef uint64_t (*NextFn)();
typedef void (*FireFn)();
void add_time_source(NextFn n, FireFn f);

// counters
void count(const char* name, uint64_t inc);
uint64_t counter(const char* name);

template <class F> inline F real_fn(const char* name)
{
  return reinterpret_cast<F>(dlsym(RTLD_NEXT, name));
}

// runner state
struct RunSpec
{
  uint64_t seed = 1;
  std::string tier = "quick";
  std::string mode;
  bool verbose = false;
  bool replay = false; // streams are limited by len/zero/override
  uint64_t len[sim::NSTREAMS] = {UINT64_MAX, UINT64_MAX, UINT64_MAX};
  std::vector<std::pair<uint64_t, uint64_t>> zero[sim::NSTREAMS]; // [a,b) ranges forced to 0
  std::map<uint64_t, uint64_t> over[sim::NSTREAMS];
};
extern RunSpec g_spec;
extern int g_result_fd;
void streams_reset();
void net_reset();
void fs_reset();
void fs_on_write(int fd, const void* b, size_t n, ssize_t written);
void fs_on_close(int fd);
bool fs_tracked_fd(int fd);
extern bool g_fs_track, g_fs_yield;
[[noreturn]] void emit_result_and_exit(const char* verdict, const char* oracle, const std::string& msg);
std::string json_escape(const std::string& s);
} // namespace simint

extern "C"
{
  void __tsan_ignore_thread_begin() __attribute__((weak));
  void __tsan_ignore_thread_end() __attribute__((weak));
}
namespace simint
{
// While a thread executes simulator code its memory accesses (seen by ThreadSanitizer only through libc interceptors such as
// memmove/memcpy) are not part of the program under test: the simulator's own state is protected by the baton.
struct TsanIgn
{
  TsanIgn() { if (__tsan_ignore_thread_begin) __tsan_ignore_thread_begin(); }
  ~TsanIgn() { if (__tsan_ignore_thread_end) __tsan_ignore_thread_end(); }
  TsanIgn(const TsanIgn&) = delete;
};
struct TsanUnIgn // re-enables checking around user code called from inside the simulator (pthread_once callbacks)
{
  TsanUnIgn() { if (__tsan_ignore_thread_end) __tsan_ignore_thread_end(); }
  ~TsanUnIgn() { if (__tsan_ignore_thread_begin) __tsan_ignore_thread_begin(); }
};
} // namespace simint

#define SIM_REAL(ret, name, ...) static auto real = simint::real_fn<ret (*)(__VA_ARGS__)>(#name)
