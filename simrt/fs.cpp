// simrt file layer: logs every mutating file operation below a tracked root on the REAL file system and
// rebuilds crash images from operation prefixes (DESIGN.md §2.5). Also turns path lookups into scheduling
// points for C20. Compiled without sanitizer instrumentation.
#include "internal.h"

#include <cerrno>
#include <cstdarg>
#include <cstdio>
#include <cstdlib>
#include <cstring>
#include <dirent.h>
#include <fcntl.h>
#include <map>
#include <string>
#include <sys/stat.h>
#include <sys/uio.h>
#include <unistd.h>
#include <vector>

using namespace simint;

namespace simint
{
bool g_fs_track = false;
bool g_fs_yield = false;
} // namespace simint

namespace
{
std::string g_root; // with trailing slash
std::vector<sim::fs::Op> g_ops;
struct Tracked { std::string rel; uint64_t off; bool append; };
std::map<int, Tracked> g_fdmap;

bool under_root(const char* path, std::string& rel)
{
  if (!g_fs_track || !path) return false;
  std::string p(path);
  if (p.compare(0, g_root.size(), g_root) != 0) return false;
  rel = p.substr(g_root.size());
  return true;
}
void log_op(sim::fs::Op&& op)
{
  op.stamp = sim::stamp();
  g_ops.push_back(std::move(op));
}
void note_open(int fd, const std::string& rel, int flags, bool existed)
{
  if (fd < 0) return;
  int acc = flags & O_ACCMODE;
  if (acc == O_RDONLY) return;
  sim::fs::Op op;
  op.kind = (flags & O_TRUNC) ? sim::fs::Op::OPEN_TRUNC : sim::fs::Op::OPEN_CREATE;
  op.path = rel;
  op.append = flags & O_APPEND;
  if ((flags & O_TRUNC) || !existed) log_op(std::move(op));
  Tracked t;
  t.rel = rel;
  t.off = 0;
  t.append = flags & O_APPEND;
  g_fdmap[fd] = t;
}
bool exists(const char* p)
{
  struct stat st;
  static auto rstat = real_fn<int (*)(const char*, struct stat*)>("stat");
  return rstat(p, &st) == 0;
}
int mode_to_flags(const char* m)
{
  int fl = 0;
  bool plus = strchr(m, '+') != nullptr;
  switch (m[0])
  {
  case 'r': fl = plus ? O_RDWR : O_RDONLY; break;
  case 'w': fl = (plus ? O_RDWR : O_WRONLY) | O_CREAT | O_TRUNC; break;
  case 'a': fl = (plus ? O_RDWR : O_WRONLY) | O_CREAT | O_APPEND; break;
  }
  return fl;
}
} // namespace

namespace simint
{
void fs_reset()
{
  g_fs_track = false;
  g_fs_yield = false;
  g_ops.clear();
  g_fdmap.clear();
  g_root.clear();
}
// called from net.cpp's write()/close() for descriptors that are not simulated sockets
void fs_on_write(int fd, const void* b, size_t n, ssize_t written)
{
  if (!g_fs_track || written <= 0) return;
  auto it = g_fdmap.find(fd);
  if (it == g_fdmap.end()) return;
  (void)n;
  sim::fs::Op op;
  op.kind = sim::fs::Op::WRITE;
  op.path = it->second.rel;
  op.data.assign((const char*)b, (size_t)written);
  op.append = it->second.append;
  op.offset = it->second.off;
  it->second.off += (uint64_t)written;
  log_op(std::move(op));
}
void fs_on_close(int fd)
{
  if (!g_fs_track) return;
  auto it = g_fdmap.find(fd);
  if (it == g_fdmap.end()) return;
  sim::fs::Op op;
  op.kind = sim::fs::Op::CLOSE;
  op.path = it->second.rel;
  log_op(std::move(op));
  g_fdmap.erase(it);
}
bool fs_tracked_fd(int fd) { return g_fs_track && g_fdmap.count(fd); }
} // namespace simint

namespace sim
{
namespace fs
{
void track(const std::string& root)
{
  g_root = root;
  if (g_root.empty() || g_root.back() != '/') g_root += '/';
  g_fs_track = true;
}
void untrack() { g_fs_track = false; }
const std::vector<Op>& ops() { return g_ops; }
void set_yield_on_path_ops(bool onoff) { g_fs_yield = onoff; }

static bool copy_tree(const std::string& from, const std::string& to)
{
  DIR* d = opendir(from.c_str());
  if (!d) return false;
  struct dirent* e;
  static auto rstat = real_fn<int (*)(const char*, struct stat*)>("lstat");
  while ((e = readdir(d)))
  {
    if (!strcmp(e->d_name, ".") || !strcmp(e->d_name, "..")) continue;
    std::string a = from + "/" + e->d_name, b = to + "/" + e->d_name;
    struct stat st;
    if (rstat(a.c_str(), &st) != 0) continue;
    if (S_ISDIR(st.st_mode))
    {
      mkdir(b.c_str(), 0700);
      copy_tree(a, b);
    }
    else if (S_ISREG(st.st_mode))
    {
      FILE* fa = fopen(a.c_str(), "rb");
      FILE* fb = fopen(b.c_str(), "wb");
      if (fa && fb)
      {
        char buf[65536];
        size_t n;
        while ((n = fread(buf, 1, sizeof buf, fa)) > 0) fwrite(buf, 1, n, fb);
      }
      if (fa) fclose(fa);
      if (fb) fclose(fb);
    }
  }
  closedir(d);
  return true;
}

bool build_image(const std::string& dest, size_t n, size_t cut, const std::string& baseline_dir)
{
  bool was = g_fs_track;
  g_fs_track = false; // nothing we do here is logged
  static auto ropen = real_fn<int (*)(const char*, int, ...)>("open");
  static auto rclose = real_fn<int (*)(int)>("close");
  static auto rpwrite = real_fn<ssize_t (*)(int, const void*, size_t, off_t)>("pwrite");
  mkdir(dest.c_str(), 0700);
  if (!baseline_dir.empty()) copy_tree(baseline_dir, dest);
  bool ok = true;
  size_t lim = std::min(n + (cut != SIZE_MAX ? 1 : 0), g_ops.size());
  for (size_t i = 0; i < lim; i++)
  {
    const Op& op = g_ops[i];
    std::string p = dest + "/" + op.path;
    bool partial = (i == n);
    switch (op.kind)
    {
    case Op::OPEN_TRUNC:
    case Op::OPEN_CREATE:
    {
      if (partial) break; // an open either happened or not; the partial image is "not"
      int fd = ropen(p.c_str(), O_WRONLY | O_CREAT | (op.kind == Op::OPEN_TRUNC ? O_TRUNC : 0), 0600);
      if (fd < 0) ok = false; else rclose(fd);
      break;
    }
    case Op::WRITE:
    {
      size_t len = partial ? std::min(cut, op.data.size()) : op.data.size();
      int fd = ropen(p.c_str(), O_WRONLY | O_CREAT, 0600);
      if (fd < 0) { ok = false; break; }
      off_t off = (off_t)op.offset;
      if (op.append)
      {
        struct stat st;
        if (fstat(fd, &st) == 0) off = st.st_size;
      }
      if (len && rpwrite(fd, op.data.data(), len, off) != (ssize_t)len) ok = false;
      rclose(fd);
      break;
    }
    case Op::RENAME:
      if (partial) break;
      if (::rename(p.c_str(), (dest + "/" + op.path2).c_str()) != 0) ok = false;
      break;
    case Op::UNLINK:
      if (partial) break;
      ::unlink(p.c_str());
      break;
    case Op::TRUNCATE:
      if (partial) break;
      if (::truncate(p.c_str(), (off_t)op.offset) != 0) ok = false;
      break;
    case Op::MKDIR:
      if (partial) break;
      mkdir(p.c_str(), 0700);
      break;
    case Op::CLOSE: break;
    }
  }
  g_fs_track = was;
  return ok;
}
} // namespace fs
} // namespace sim

#define FS_POINT(tag) do { if (on() && (g_fs_track || g_fs_yield)) point(tag); } while (0)

extern "C"
{
int open(const char* path, int flags, ...)
{
  simint::TsanIgn _tsan_ign;
  typedef int (*OpenFn)(const char*, int, ...);
  static OpenFn real = real_fn<OpenFn>("open");
  va_list ap;
  va_start(ap, flags);
  mode_t mode = (flags & (O_CREAT | O_TMPFILE)) ? va_arg(ap, mode_t) : 0;
  va_end(ap);
  std::string rel;
  if (!on()) return real(path, flags, mode);
  if (g_fs_yield) point(0xa00);
  if (!under_root(path, rel)) return real(path, flags, mode);
  point(0xa01);
  bool ex = exists(path);
  int fd = real(path, flags, mode);
  note_open(fd, rel, flags, ex);
  if (fd >= 0 && (flags & O_APPEND) == 0 && !(flags & O_TRUNC)) g_fdmap.count(fd) ? (void)(g_fdmap[fd].off = 0) : (void)0;
  return fd;
}
int open64(const char* path, int flags, ...)
{
  simint::TsanIgn _tsan_ign;
  va_list ap;
  va_start(ap, flags);
  mode_t mode = (flags & (O_CREAT | O_TMPFILE)) ? va_arg(ap, mode_t) : 0;
  va_end(ap);
  return open(path, flags, mode);
}
int openat(int dirfd, const char* path, int flags, ...)
{
  simint::TsanIgn _tsan_ign;
  typedef int (*OpenatFn)(int, const char*, int, ...);
  static OpenatFn real = real_fn<OpenatFn>("openat");
  va_list ap;
  va_start(ap, flags);
  mode_t mode = (flags & (O_CREAT | O_TMPFILE)) ? va_arg(ap, mode_t) : 0;
  va_end(ap);
  if (on() && path[0] == '/') return open(path, flags, mode);
  if (on() && g_fs_yield) point(0xa02);
  return real(dirfd, path, flags, mode);
}
int openat64(int dirfd, const char* path, int flags, ...)
{
  simint::TsanIgn _tsan_ign;
  va_list ap;
  va_start(ap, flags);
  mode_t mode = (flags & (O_CREAT | O_TMPFILE)) ? va_arg(ap, mode_t) : 0;
  va_end(ap);
  return openat(dirfd, path, flags, mode);
}
int creat(const char* path, mode_t mode) { return open(path, O_CREAT | O_WRONLY | O_TRUNC, mode); }

static FILE* fopen_common(const char* name, const char* path, const char* mode)
{
  simint::TsanIgn _tsan_ign;
  typedef FILE* (*FopenFn)(const char*, const char*);
  static FopenFn real64 = real_fn<FopenFn>("fopen64");
  static FopenFn real32 = real_fn<FopenFn>("fopen");
  FopenFn real = (name[5] == '6') ? real64 : real32;
  std::string rel;
  if (!on()) return real(path, mode);
  if (g_fs_yield) point(0xa03);
  if (!under_root(path, rel)) return real(path, mode);
  point(0xa04);
  bool ex = exists(path);
  FILE* f = real(path, mode);
  if (f) note_open(fileno(f), rel, mode_to_flags(mode), ex);
  return f;
}
FILE* fopen64(const char* path, const char* mode) { return fopen_common("fopen64", path, mode); }
FILE* fopen(const char* path, const char* mode) { return fopen_common("fopen", path, mode); }
int fclose(FILE* f)
{
  simint::TsanIgn _tsan_ign;
  SIM_REAL(int, fclose, FILE*);
  if (on() && g_fs_track && f)
  {
    int fd = fileno(f);
    if (fs_tracked_fd(fd))
    {
      point(0xa05);
      fflush(f); // buffered stdio data reaches write() first (not via our interposer: libc-internal) -- tracked files are written by libstdc++ through write()
      fs_on_close(fd);
    }
  }
  return real(f);
}
ssize_t writev(int fd, const struct iovec* iov, int cnt)
{
  simint::TsanIgn _tsan_ign;
  SIM_REAL(ssize_t, writev, int, const struct iovec*, int);
  if (!on() || !fs_tracked_fd(fd)) return real(fd, iov, cnt);
  point(0xa06);
  ssize_t n = real(fd, iov, cnt);
  if (n > 0)
  {
    std::string buf;
    for (int i = 0; i < cnt; i++) buf.append((const char*)iov[i].iov_base, iov[i].iov_len);
    fs_on_write(fd, buf.data(), buf.size(), n);
  }
  return n;
}
ssize_t pwrite(int fd, const void* b, size_t n, off_t off)
{
  simint::TsanIgn _tsan_ign;
  SIM_REAL(ssize_t, pwrite, int, const void*, size_t, off_t);
  if (!on() || !fs_tracked_fd(fd)) return real(fd, b, n, off);
  point(0xa07);
  ssize_t w = real(fd, b, n, off);
  if (w > 0)
  {
    uint64_t save = g_fdmap[fd].off;
    bool app = g_fdmap[fd].append;
    g_fdmap[fd].off = (uint64_t)off;
    g_fdmap[fd].append = false;
    fs_on_write(fd, b, n, w);
    g_fdmap[fd].off = save;
    g_fdmap[fd].append = app;
  }
  return w;
}
ssize_t pwrite64(int fd, const void* b, size_t n, off_t off) { return pwrite(fd, b, n, off); }
off_t lseek(int fd, off_t off, int whence)
{
  simint::TsanIgn _tsan_ign;
  SIM_REAL(off_t, lseek, int, off_t, int);
  off_t r = real(fd, off, whence);
  if (on() && fs_tracked_fd(fd) && r >= 0) g_fdmap[fd].off = (uint64_t)r;
  return r;
}
off_t lseek64(int fd, off_t off, int whence) { return lseek(fd, off, whence); }
int rename(const char* a, const char* b)
{
  simint::TsanIgn _tsan_ign;
  SIM_REAL(int, rename, const char*, const char*);
  std::string ra, rb;
  if (!on()) return real(a, b);
  if (g_fs_yield) point(0xa08);
  if (!under_root(a, ra) || !under_root(b, rb)) return real(a, b);
  point(0xa09);
  int rc = real(a, b);
  if (rc == 0)
  {
    sim::fs::Op op;
    op.kind = sim::fs::Op::RENAME;
    op.path = ra;
    op.path2 = rb;
    log_op(std::move(op));
  }
  return rc;
}
int renameat(int d1, const char* a, int d2, const char* b)
{
  simint::TsanIgn _tsan_ign;
  SIM_REAL(int, renameat, int, const char*, int, const char*);
  if (on() && a && b && a[0] == '/' && b[0] == '/') return rename(a, b);
  return real(d1, a, d2, b);
}
int unlink(const char* p)
{
  simint::TsanIgn _tsan_ign;
  SIM_REAL(int, unlink, const char*);
  std::string rel;
  if (!on()) return real(p);
  if (g_fs_yield) point(0xa0a);
  if (!under_root(p, rel)) return real(p);
  point(0xa0b);
  int rc = real(p);
  if (rc == 0)
  {
    sim::fs::Op op;
    op.kind = sim::fs::Op::UNLINK;
    op.path = rel;
    log_op(std::move(op));
  }
  return rc;
}
int unlinkat(int d, const char* p, int flags)
{
  simint::TsanIgn _tsan_ign;
  SIM_REAL(int, unlinkat, int, const char*, int);
  if (on() && p[0] == '/' && !(flags & AT_REMOVEDIR)) return unlink(p);
  return real(d, p, flags);
}
int remove(const char* p)
{
  simint::TsanIgn _tsan_ign;
  SIM_REAL(int, remove, const char*);
  std::string rel;
  if (!on() || !under_root(p, rel)) return real(p);
  struct stat st;
  static auto rl = real_fn<int (*)(const char*, struct stat*)>("lstat");
  if (rl(p, &st) == 0 && S_ISDIR(st.st_mode)) return real(p);
  return unlink(p);
}
int truncate(const char* p, off_t len)
{
  simint::TsanIgn _tsan_ign;
  SIM_REAL(int, truncate, const char*, off_t);
  std::string rel;
  if (!on() || !under_root(p, rel)) return real(p, len);
  point(0xa0c);
  int rc = real(p, len);
  if (rc == 0)
  {
    sim::fs::Op op;
    op.kind = sim::fs::Op::TRUNCATE;
    op.path = rel;
    op.offset = (uint64_t)len;
    log_op(std::move(op));
  }
  return rc;
}
int truncate64(const char* p, off_t len) { return truncate(p, len); }
int ftruncate(int fd, off_t len)
{
  simint::TsanIgn _tsan_ign;
  SIM_REAL(int, ftruncate, int, off_t);
  if (!on() || !fs_tracked_fd(fd)) return real(fd, len);
  point(0xa0d);
  int rc = real(fd, len);
  if (rc == 0)
  {
    sim::fs::Op op;
    op.kind = sim::fs::Op::TRUNCATE;
    op.path = g_fdmap[fd].rel;
    op.offset = (uint64_t)len;
    log_op(std::move(op));
  }
  return rc;
}
int ftruncate64(int fd, off_t len) { return ftruncate(fd, len); }
int fsync(int fd)
{
  simint::TsanIgn _tsan_ign;
  SIM_REAL(int, fsync, int);
  if (on() && fs_tracked_fd(fd)) { point(0xa0e); return 0; }
  return real(fd);
}
int fdatasync(int fd)
{
  simint::TsanIgn _tsan_ign;
  SIM_REAL(int, fdatasync, int);
  if (on() && fs_tracked_fd(fd)) { point(0xa0f); return 0; }
  return real(fd);
}

// ---- path lookups as scheduling points (C20)
int stat(const char* p, struct stat* st)
{
  simint::TsanIgn _tsan_ign;
  SIM_REAL(int, stat, const char*, struct stat*);
  if (on() && g_fs_yield) point(0xa10);
  return real(p, st);
}
int lstat(const char* p, struct stat* st)
{
  simint::TsanIgn _tsan_ign;
  SIM_REAL(int, lstat, const char*, struct stat*);
  if (on() && g_fs_yield) point(0xa11);
  return real(p, st);
}
int fstatat(int d, const char* p, struct stat* st, int fl)
{
  simint::TsanIgn _tsan_ign;
  SIM_REAL(int, fstatat, int, const char*, struct stat*, int);
  if (on() && g_fs_yield) point(0xa12);
  return real(d, p, st, fl);
}
ssize_t readlink(const char* p, char* b, size_t n)
{
  simint::TsanIgn _tsan_ign;
  SIM_REAL(ssize_t, readlink, const char*, char*, size_t);
  if (on() && g_fs_yield) point(0xa13);
  return real(p, b, n);
}
char* realpath(const char* p, char* out)
{
  simint::TsanIgn _tsan_ign;
  SIM_REAL(char*, realpath, const char*, char*);
  if (on() && g_fs_yield) point(0xa14);
  return real(p, out);
}
int symlink(const char* a, const char* b)
{
  simint::TsanIgn _tsan_ign;
  SIM_REAL(int, symlink, const char*, const char*);
  if (on() && g_fs_yield) point(0xa15);
  return real(a, b);
}
int access(const char* p, int m)
{
  simint::TsanIgn _tsan_ign;
  SIM_REAL(int, access, const char*, int);
  if (on() && g_fs_yield) point(0xa16);
  return real(p, m);
}
} // extern "C"
