// simrt — deterministic simulation runtime for joegen/iora (see /verif/DESIGN.md §2).
// Public interface used by harnesses. Contains no iora code and no property logic.
#pragma once
#include <cstddef>
#include <cstdint>
#include <cstdarg>
#include <string>
#include <vector>
#include <functional>

namespace sim
{

// ---------------------------------------------------------------- configuration of one run
enum Strategy : int { STICKY = 0, RANDOM = 1, PCT = 2, RR = 3 };

struct Config
{
  int strategy = STICKY;
  unsigned preempt_permille = 50;     // STICKY: chance to leave a runnable current thread at a point
  unsigned pct_depth = 3;             // PCT: number of priority change points
  uint64_t pct_horizon = 20000;       // PCT: change points are drawn in [0, horizon) scheduling steps
  uint64_t step_ns = 1000;            // simulated cost of one scheduling point
  unsigned stall_ppm = 0;             // chance (per million points) that the running thread is descheduled
  uint64_t stall_max_ns = 0;          // upper bound of one stall
  unsigned create_stall_permille = 0; // chance that a thread is descheduled (up to stall_max_ns) right after creating a thread
  unsigned spurious_ppm = 0;          // chance that a condition wait returns spuriously
  bool atomic_points = false;         // TSan flavour: a scheduling point before every instrumented std::atomic operation
  bool wall_ms_aligned = false;       // CLOCK_REALTIME truncated to whole milliseconds
  uint64_t max_steps = 20000000;      // safety net: run is reported as 'livelock' beyond this
  uint64_t starve_bound = 20000;      // a runnable thread not chosen for this many decisions is forced
};

// ---------------------------------------------------------------- choice streams
// Three independent streams so that shrinking the schedule does not shift workload choices.
enum Stream : int { W = 0 /*workload*/, S = 1 /*scheduler*/, F = 2 /*faults: kernel, fs*/, NSTREAMS = 3 };
uint64_t draw(int stream, uint64_t n);                 // uniform in [0,n); replay-exhausted => 0
inline uint64_t draw(uint64_t n) { return draw(W, n); }
inline uint64_t range(uint64_t lo, uint64_t hi) { return lo + draw(W, hi - lo + 1); } // inclusive
inline bool chance(unsigned permille) { return permille && draw(W, 1000) >= 1000 - (uint64_t)permille; }
inline uint64_t fdraw(uint64_t n) { return draw(F, n); }
inline bool fchance_ppm(unsigned ppm) { return ppm && draw(F, 1000000) >= 1000000 - (uint64_t)ppm; }

// ---------------------------------------------------------------- lifecycle (called by the runner / harness)
void begin(const Config& cfg);        // calling thread becomes simulated thread 0
void end();                           // back to pass-through mode (only thread 0 may remain)
bool active();
void reconfigure(const Config& cfg);  // change knobs mid-run (e.g. quiet tail: no stalls)

// ---------------------------------------------------------------- time
constexpr uint64_t EPOCH_BASE_S = 1893456000ull;  // 2030-01-01T00:00:00Z
uint64_t now();                       // simulated monotonic ns
uint64_t wall_ms();                   // simulated wall clock, ms since Unix epoch
void wall_jump_ms(int64_t delta);     // move CLOCK_REALTIME (forward)
void advance_ns(uint64_t d);          // jump monotonic+wall clock forward without yielding (frozen-time harnesses)
void sleep_ns(uint64_t d);            // simulated sleep of the calling thread
uint64_t stalled_ns();                // total stall time injected so far (all threads)

// ---------------------------------------------------------------- events, counters, verdicts
uint64_t stamp();                     // global event sequence number (strictly increasing per call)
int self();                           // index of calling simulated thread (creation order), -1 if none
int thread_count();                   // threads ever created in this run
int live_threads();                   // threads not finished
void point(uint32_t tag);             // explicit scheduling point (harness use)
void logf(const char* fmt, ...) __attribute__((format(printf, 1, 2))); // event log: hashed; kept if verbose
void notef(const char* fmt, ...) __attribute__((format(printf, 1, 2))); // human-readable rendering (kept if verbose)
void count(const char* name, uint64_t inc = 1);  // named counter reported in the result line
void state_mix(uint64_t v);           // contributes to the per-run abstract-state hash
[[noreturn]] void fail(const char* oracle, const char* fmt, ...) __attribute__((format(printf, 2, 3)));
[[noreturn]] void finish_ok();        // write result line and _exit(0)
bool verbose();
const char* tier();                   // "quick" | "thorough"
uint64_t seed();
const char* mode();                   // harness-specific mode string from the driver ("" if none)
std::string scratch_dir();            // per-run scratch directory (created on demand, under $VERIF_SCRATCH)

// deadlock hook: by default a deadlock is reported as oracle "deadlock". A harness may install a
// describer that adds property-specific detail to the signature.
void set_deadlock_describer(std::function<std::string()> f);
// describe what every thread is blocked on (address-free)
std::string threads_report();
void name_thread(const char* name);   // label for reports (current thread)
void name_object(const void* obj, const char* name); // label a mutex/cond for reports

// ---------------------------------------------------------------- simulated network (net.cpp)
namespace net
{
struct NetConfig
{
  size_t sndbuf = 65536;              // per-connection sender budget (bytes in flight)
  size_t rcvbuf = 65536;              // receiver buffer
  size_t mss = 1460;
  uint64_t latency_ns = 50000;        // one-way base latency
  uint64_t jitter_ns = 20000;
  unsigned short_write_permille = 0;  // send() accepts fewer bytes than room allows
  unsigned short_read_permille = 0;   // recv() returns fewer bytes than available
  unsigned eagain_read_permille = 0;  // not used for correctness; reserved
  unsigned connect_immediate_permille = 0; // non-blocking connect succeeds at once
  uint64_t connect_delay_ns = 100000;
  unsigned epoll_shuffle = 1;         // ready list order is drawn
  unsigned epoll_truncate_permille = 0; // epoll_wait returns fewer than maxevents although more are ready
  unsigned eintr_ppm = 0;             // epoll_wait returns EINTR
  unsigned wr_threshold_third = 0;    // writability needs a third of the buffer free (tcp_poll style)
  // UDP
  unsigned udp_drop_permille = 0, udp_dup_permille = 0, udp_reorder_permille = 0;
  size_t udp_rcv_datagrams = 256;     // per-socket receive queue bound (datagrams)
  size_t udp_snd_budget = 0;          // 0 = unlimited; else EAGAIN when this many datagrams are in flight from a socket
  bool tap = false;                   // record every byte sent per TCP endpoint
};
void configure(const NetConfig& c);
NetConfig& config();
void add_host(const char* name, const char* ipv4);      // name table for getaddrinfo
void set_resolve_delay(uint64_t ns);                    // getaddrinfo takes this long (simulated)
void set_blackhole(const char* ipv4, int port, bool on);// SYNs to this target are never answered
void set_refuse_delay(uint64_t ns);
void set_connect_delay(const char* ipv4, int port, uint64_t ns); // SYN-ACK delay for one destination (port 0 = any)
// tap access: bytes sent by the endpoint `fd` so far (valid while the fd or its peer is open; kept after close)
struct ConnInfo { int id; int fd_a, fd_b; std::string a_addr, b_addr; std::string a_sent, b_sent; bool a_closed, b_closed; };
std::vector<ConnInfo> connections();  // all TCP connections ever established in this run (tap must be on for *_sent)
size_t established_count();           // currently established TCP connections (both ends open)
uint64_t fault_count(const char* name);
// datagram record of every UDP send accepted by the kernel
struct Dgram { int from_fd; std::string src, dst; std::string payload; uint64_t stamp; bool dropped; };
const std::vector<Dgram>& udp_sent();
bool is_sim_fd(int fd);
void abort_close(int fd);             // close with RST (SO_LINGER 0)
int wait_readable(int fd, uint64_t timeout_ns); // 1 readable/EOF/error, 0 timeout (blocking helper for peers)
} // namespace net

// ---------------------------------------------------------------- simulated file layer (fs.cpp)
namespace fs
{
struct Op
{
  enum Kind { OPEN_TRUNC, OPEN_CREATE, WRITE, RENAME, UNLINK, TRUNCATE, CLOSE, MKDIR } kind;
  std::string path, path2; // relative to the tracked root
  std::string data;        // WRITE: bytes; TRUNCATE: unused
  uint64_t offset = 0;     // WRITE: file offset; TRUNCATE: new length
  uint64_t stamp = 0;      // sim::stamp() at the call
  bool append = false;
};
void track(const std::string& root);          // start logging mutating operations below root
void untrack();
const std::vector<Op>& ops();
// materialise the directory produced by ops[0..n) plus the first `cut` bytes of ops[n] if it is a WRITE
// (cut == SIZE_MAX: none of op n) into `dest` (created empty). Returns false on I/O error.
bool build_image(const std::string& dest, size_t n, size_t cut, const std::string& baseline_dir = "");
void set_yield_on_path_ops(bool on);          // lstat/stat/readlink/open are scheduling points (C20)
} // namespace fs

} // namespace sim

// Harness entry points (defined by each harness executable)
struct HarnessInfo
{
  const char* name;        // e.g. "c10_bq"
  const char* property;    // e.g. "C10"
  unsigned wall_timeout_s; // real-time watchdog per run
};
extern "C" HarnessInfo harness_info();
extern "C" void harness_run(); // runs inside a forked child; must call sim::begin/.../sim::finish_ok or sim::fail
