// simrt runner: main() of every harness executable. One forked child per run (DESIGN.md §2.7).
//   harness --worker            read run specs from stdin (one per line), print one JSON result line per run
//   harness --one <spec...>     run one spec and print its result line
// spec tokens: seed=N tier=quick|thorough mode=STR verbose=0|1 replay=0|1 len=a,b,c zeroK=a-b;c-d overK=i:v;i:v
#include "internal.h"

#include <cerrno>
#include <csignal>
#include <cstdio>
#include <cstdlib>
#include <cstring>
#include <fcntl.h>
#include <ftw.h>
#include <poll.h>
#include <string>
#include <sys/personality.h>
#include <sys/stat.h>
#include <sys/wait.h>
#include <unistd.h>
#include <vector>
#include <sstream>
#include <time.h>

using namespace simint;

extern "C"
{
  __attribute__((used, visibility("default"))) const char* __asan_default_options()
  {
    return "exitcode=77:detect_leaks=0:abort_on_error=0:detect_stack_use_after_return=0:allocator_may_return_null=1:"
           "handle_abort=1:print_summary=1:symbolize=1:fast_unwind_on_malloc=1:malloc_context_size=8";
  }
  __attribute__((used, visibility("default"))) const char* __ubsan_default_options()
  {
    return "halt_on_error=1:exitcode=77:print_stacktrace=1";
  }
  __attribute__((used, visibility("default"))) const char* __tsan_default_options()
  {
    return "exitcode=78:halt_on_error=0:report_signal_unsafe=0:second_deadlock_stack=0:history_size=4:detect_deadlocks=0:"
           "report_thread_leaks=0:die_after_fork=0";
  }
}

namespace
{
std::string g_scratch_root, g_run_dir;
bool g_run_dir_made = false;

int rm_cb(const char* p, const struct stat*, int, struct FTW*) { return remove(p); }
void rm_rf(const std::string& p) { nftw(p.c_str(), rm_cb, 32, FTW_DEPTH | FTW_PHYS); }

void parse_ranges(const std::string& v, std::vector<std::pair<uint64_t, uint64_t>>& out)
{
  std::stringstream ss(v);
  std::string item;
  while (std::getline(ss, item, ';'))
  {
    if (item.empty()) continue;
    size_t d = item.find('-');
    if (d == std::string::npos) continue;
    out.emplace_back(strtoull(item.substr(0, d).c_str(), nullptr, 10), strtoull(item.substr(d + 1).c_str(), nullptr, 10));
  }
}
void parse_over(const std::string& v, std::map<uint64_t, uint64_t>& out)
{
  std::stringstream ss(v);
  std::string item;
  while (std::getline(ss, item, ';'))
  {
    size_t d = item.find(':');
    if (d == std::string::npos) continue;
    out[strtoull(item.substr(0, d).c_str(), nullptr, 10)] = strtoull(item.substr(d + 1).c_str(), nullptr, 10);
  }
}
RunSpec parse_spec(const std::vector<std::string>& toks)
{
  RunSpec s;
  for (auto& t : toks)
  {
    size_t e = t.find('=');
    if (e == std::string::npos) continue;
    std::string k = t.substr(0, e), v = t.substr(e + 1);
    if (k == "seed") s.seed = strtoull(v.c_str(), nullptr, 10);
    else if (k == "tier") s.tier = v;
    else if (k == "mode") s.mode = v;
    else if (k == "verbose") s.verbose = v == "1";
    else if (k == "replay") s.replay = v == "1";
    else if (k == "len")
    {
      std::stringstream ss(v);
      std::string item;
      int i = 0;
      while (std::getline(ss, item, ',') && i < sim::NSTREAMS)
      {
        s.len[i] = item == "-" ? UINT64_MAX : strtoull(item.c_str(), nullptr, 10);
        i++;
      }
    }
    else if (k.size() == 5 && k.compare(0, 4, "zero") == 0) parse_ranges(v, s.zero[(k[4] - '0') % sim::NSTREAMS]);
    else if (k.size() == 5 && k.compare(0, 4, "over") == 0) parse_over(v, s.over[(k[4] - '0') % sim::NSTREAMS]);
  }
  return s;
}
std::vector<std::string> split_ws(const std::string& l)
{
  std::vector<std::string> v;
  std::stringstream ss(l);
  std::string t;
  while (ss >> t) v.push_back(t);
  return v;
}

std::string read_file_tail(const std::string& path, size_t max)
{
  std::string out;
  FILE* f = fopen(path.c_str(), "r");
  if (!f) return out;
  fseek(f, 0, SEEK_END);
  long sz = ftell(f);
  long from = 0;
  (void)max;
  fseek(f, from, SEEK_SET);
  out.resize((size_t)(sz - from));
  size_t n = fread(&out[0], 1, out.size(), f);
  out.resize(n);
  fclose(f);
  return out;
}

// Build an address-free summary of a sanitizer report: error kind + the innermost frames in iora headers.
std::string summarize_sanitizer(const std::string& err, std::string& kind)
{
  kind = "crash";
  std::string summary;
  std::stringstream ss(err);
  std::string line;
  int frames = 0;
  bool inFirstStack = false;
  while (std::getline(ss, line))
  {
    size_t p;
    if ((p = line.find("ERROR: AddressSanitizer:")) != std::string::npos && summary.empty())
    {
      kind = "asan";
      std::string k = line.substr(p + 25);
      size_t sp = k.find(' ');
      summary = "asan " + (sp == std::string::npos ? k : k.substr(0, sp));
      inFirstStack = true;
      continue;
    }
    if ((p = line.find("runtime error:")) != std::string::npos && summary.empty())
    {
      kind = "ubsan";
      std::string loc = line.substr(0, p);
      size_t sl = loc.rfind("/iora/");
      if (sl != std::string::npos) loc = loc.substr(sl + 1);
      summary = "ubsan " + loc + line.substr(p + 14, 120);
      inFirstStack = true;
      continue;
    }
    if ((p = line.find("WARNING: ThreadSanitizer:")) != std::string::npos && summary.empty())
    {
      kind = "tsan";
      std::string k = line.substr(p + 26);
      size_t sp = k.find(" (");
      summary = "tsan " + (sp == std::string::npos ? k : k.substr(0, sp));
      inFirstStack = true;
      continue;
    }
    if (inFirstStack && frames < 4)
    {
      size_t in = line.find(" in ");
      size_t io = line.find("/iora/");
      if (line.find("#") != std::string::npos && in != std::string::npos && io != std::string::npos)
      {
        std::string fn = line.substr(in + 4);
        size_t par = fn.find('(');
        size_t spc = fn.find(" /");
        if (par != std::string::npos) fn = fn.substr(0, par);
        else if (spc != std::string::npos) fn = fn.substr(0, spc);
        std::string file = line.substr(io + 1);
        size_t col = file.find(':');
        if (col != std::string::npos) file = file.substr(0, col);
        summary += " @" + fn + "[" + file + "]";
        frames++;
      }
    }
    if (line.find("SUMMARY:") != std::string::npos) break;
  }
  if (summary.empty())
  {
    // terminate / abort message
    size_t p = err.find("terminate called");
    if (p != std::string::npos) summary = err.substr(p, 200);
  }
  return summary;
}

// ThreadSanitizer keeps running after a report (halt_on_error=0) and the child leaves through _exit(), so data races are
// harvested from the captured stderr. A report counts only when the code performing BOTH accesses - the innermost frame that is
// not in the C++ standard library, the sanitizer runtime or the simulator - lies in an iora header.
bool frame_file(const std::string& line, std::string& fn, std::string& file)
{
  size_t h = line.find('#');
  if (h == std::string::npos) return false;
  size_t sp = line.find(' ', h);
  if (sp == std::string::npos) return false;
  std::string rest = line.substr(sp + 1);
  size_t mod = rest.rfind(" (");
  if (mod != std::string::npos) rest = rest.substr(0, mod);
  size_t fs = rest.rfind(' ');
  if (fs == std::string::npos) return false;
  fn = rest.substr(0, fs);
  file = rest.substr(fs + 1);
  size_t par = fn.find('(');
  if (par != std::string::npos) fn = fn.substr(0, par);
  if (fn.size() > 70) fn = fn.substr(0, 70);
  return true;
}
std::string scan_tsan(const std::string& err, int& relevant)
{
  relevant = 0;
  std::string firstSig;
  size_t pos = 0;
  while ((pos = err.find("WARNING: ThreadSanitizer:", pos)) != std::string::npos)
  {
    size_t end = err.find("==================", pos);
    if (end == std::string::npos) end = err.size();
    std::string blk = err.substr(pos, end - pos);
    pos = end;
    std::string kind = blk.substr(26, blk.find('\n') - 26);
    size_t pp = kind.find(" (pid");
    if (pp != std::string::npos) kind = kind.substr(0, pp);
    // split into stacks: a stack starts at a line that does not begin with "    #" and is followed by frame lines
    std::vector<std::string> owners; // innermost relevant frame per access stack
    std::stringstream ss(blk);
    std::string line;
    bool inAccess = false, found = false;
    int stacks = 0;
    while (std::getline(ss, line))
    {
      bool isFrame = line.compare(0, 5, "    #") == 0;
      if (!isFrame)
      {
        bool accessHdr = line.find(" of size ") != std::string::npos && (line.find("rite") != std::string::npos || line.find("ead") != std::string::npos);
        if (accessHdr) { inAccess = true; found = false; stacks++; if (stacks > 2) break; }
        else if (!line.empty() && line[0] == ' ' && line.find("Location is") != std::string::npos) inAccess = false;
        else if (line.find("Thread T") != std::string::npos || line.find("Mutex M") != std::string::npos) inAccess = false;
        continue;
      }
      if (!inAccess || found) continue;
      std::string fn, file;
      if (!frame_file(line, fn, file)) continue;
      if (file.find("/usr/include/") == 0 || file.find("/usr/lib/") == 0 || file.find("libsanitizer") != std::string::npos || file.find("<null>") != std::string::npos) continue;
      found = true;
      size_t io = file.find("/include/iora/");
      if (io != std::string::npos)
      {
        std::string f = file.substr(io + 9);
        size_t col = f.find(':');
        if (col != std::string::npos) f = f.substr(0, col);
        owners.push_back(fn + "[" + f + "]");
      }
      else owners.push_back("");
    }
    bool rel = kind.find("data race") != std::string::npos ? (owners.size() >= 2 && !owners[0].empty() && !owners[1].empty()) : (!owners.empty() && !owners[0].empty());
    if (rel)
    {
      relevant++;
      if (firstSig.empty())
      {
        std::string a = owners[0], b = owners.size() > 1 ? owners[1] : "";
        if (b < a) std::swap(a, b);
        firstSig = "tsan " + kind + " " + a + " / " + b;
      }
    }
  }
  return firstSig;
}

std::string abnormal_json(const RunSpec& s, const char* oracle, const std::string& msg, const std::string& errtail)
{
  std::string j = "{\"verdict\":\"violation\",\"oracle\":\"";
  j += oracle;
  j += "\",\"msg\":\"" + json_escape(msg) + "\",\"seed\":" + std::to_string(s.seed) +
       ",\"hash\":\"0\",\"ilv\":\"0\",\"state\":\"0\",\"steps\":0,\"switches\":0,\"preempts\":0,\"threads\":0,\"sim_ns\":0,"
       "\"stalls\":0,\"stalled_ns\":0,\"spurious\":0,\"timejumps\":0,\"draws\":[0,0,0],\"counters\":{},\"abnormal\":true";
  if (s.verbose) j += ",\"stderr\":\"" + json_escape(errtail.size() > 6000 ? errtail.substr(0, 6000) : errtail) + "\"";
  j += "}\n";
  return j;
}

std::string run_one(const RunSpec& spec, unsigned wall_timeout_s)
{
  int pfd[2];
  if (pipe(pfd) != 0) return abnormal_json(spec, "machinery", "pipe failed", "");
  std::string errpath = g_scratch_root + "/stderr";
  fflush(stdout);
  fflush(stderr);
  pid_t pid = fork();
  if (pid == 0)
  {
    close(pfd[0]);
    int efd = open(errpath.c_str(), O_WRONLY | O_CREAT | O_TRUNC, 0600);
    if (efd >= 0)
    {
      dup2(efd, 2);
      if (!spec.verbose || getenv("VERIF_QUIET_CHILD")) dup2(efd, 1);
      else dup2(efd, 1);
      close(efd);
    }
    g_result_fd = pfd[1];
    g_spec = spec;
    streams_reset();
    net_reset();
    fs_reset();
    harness_run();
    if (sim::active()) sim::finish_ok();
    emit_result_and_exit("ok", "", "");
  }
  close(pfd[1]);
  std::string out;
  char buf[65536];
  struct timespec t0;
  clock_gettime(CLOCK_MONOTONIC, &t0);
  bool killed = false;
  for (;;)
  {
    struct timespec t1;
    clock_gettime(CLOCK_MONOTONIC, &t1);
    long elapsed_ms = (t1.tv_sec - t0.tv_sec) * 1000 + (t1.tv_nsec - t0.tv_nsec) / 1000000;
    long left = (long)wall_timeout_s * 1000 - elapsed_ms;
    if (left <= 0)
    {
      kill(pid, SIGKILL);
      killed = true;
      break;
    }
    struct pollfd p = {pfd[0], POLLIN, 0};
    int r = poll(&p, 1, (int)(left > 1000 ? 1000 : left));
    if (r < 0 && errno == EINTR) continue;
    if (r > 0)
    {
      ssize_t n = read(pfd[0], buf, sizeof buf);
      if (n > 0) out.append(buf, (size_t)n);
      else break;
    }
  }
  close(pfd[0]);
  int st = 0;
  // the child _exit()s right after writing; a child that wrote a result but does not die is killed
  for (int i = 0; i < 200 && !killed; i++)
  {
    pid_t w = waitpid(pid, &st, WNOHANG);
    if (w == pid) { pid = -1; break; }
    usleep(i < 20 ? 200 : 5000);
  }
  if (pid > 0)
  {
    kill(pid, SIGKILL);
    waitpid(pid, &st, 0);
  }
  if (g_run_dir_made || true) rm_rf(g_run_dir);
  if (killed)
  {
    std::string tail = read_file_tail(errpath, 8000);
    return abnormal_json(spec, "hang", "no result within " + std::to_string(wall_timeout_s) + " s of real time (no scheduling point reached: busy loop?)", tail);
  }
  bool complete = !out.empty() && out.back() == '\n';
  if (getenv("SIMRT_SHOW_STDERR"))
  {
    std::string t = read_file_tail(errpath, 0);
    fwrite(t.data(), 1, t.size(), stderr);
  }
  if (__tsan_ignore_thread_begin && complete)
  {
    std::string t = read_file_tail(errpath, 0);
    int rel = 0;
    std::string sig = scan_tsan(t, rel);
    if (rel > 0) return abnormal_json(spec, "sanitizer", sig + " (" + std::to_string(rel) + " relevant report(s))", t);
  }
  if (complete && WIFEXITED(st) && WEXITSTATUS(st) == 0) return out;
  std::string tail = read_file_tail(errpath, 8000);
  std::string kind;
  std::string summ = summarize_sanitizer(tail, kind);
  if (WIFSIGNALED(st))
  {
    if (summ.empty()) summ = "signal " + std::to_string(WTERMSIG(st));
    return abnormal_json(spec, kind == "crash" ? "crash" : "sanitizer", summ, tail);
  }
  if (WIFEXITED(st) && (WEXITSTATUS(st) == 77 || WEXITSTATUS(st) == 78))
    return abnormal_json(spec, "sanitizer", summ.empty() ? "sanitizer exit" : summ, tail);
  if (complete) return out; // result written, odd exit code
  return abnormal_json(spec, "crash", summ.empty() ? ("exit " + std::to_string(WIFEXITED(st) ? WEXITSTATUS(st) : -1)) : summ, tail);
}
} // namespace

namespace sim
{
std::string scratch_dir()
{
  if (!g_run_dir_made)
  {
    mkdir(g_run_dir.c_str(), 0700);
    g_run_dir_made = true;
  }
  return g_run_dir;
}
} // namespace sim

extern "C" void harness_preinit() __attribute__((weak)); // optional: runs once in the worker before any fork (e.g. OpenSSL init)

int main(int argc, char** argv)
{
  // address-space layout randomisation off: heap/stack addresses repeat between a batch run and its replay
  if (!getenv("SIMRT_NO_REEXEC") && !(personality(0xffffffff) & ADDR_NO_RANDOMIZE))
  {
    if (personality(personality(0xffffffff) | ADDR_NO_RANDOMIZE) != -1)
    {
      setenv("SIMRT_NO_REEXEC", "1", 1);
      execv("/proc/self/exe", argv);
    }
  }
  signal(SIGPIPE, SIG_IGN);
  HarnessInfo hi = harness_info();
  if (harness_preinit) harness_preinit();
  const char* sr = getenv("VERIF_SCRATCH");
  g_scratch_root = std::string(sr && *sr ? sr : "/dev/shm") + "/iora-verif." + std::to_string((long)getpid());
  mkdir(g_scratch_root.c_str(), 0700);
  g_run_dir = g_scratch_root + "/run";
  unsigned wt = hi.wall_timeout_s ? hi.wall_timeout_s : 20;
  if (const char* e = getenv("VERIF_WALL_TIMEOUT")) wt = (unsigned)atoi(e);
  int rc = 0;
  if (argc >= 2 && strcmp(argv[1], "--worker") == 0)
  {
    char* line = nullptr;
    size_t cap = 0;
    ssize_t n;
    while ((n = getline(&line, &cap, stdin)) > 0)
    {
      std::string l(line, (size_t)n);
      if (l == "quit\n") break;
      RunSpec s = parse_spec(split_ws(l));
      std::string r = run_one(s, wt);
      fwrite(r.data(), 1, r.size(), stdout);
      fflush(stdout);
    }
    free(line);
  }
  else if (argc >= 2 && strcmp(argv[1], "--one") == 0)
  {
    std::vector<std::string> toks;
    for (int i = 2; i < argc; i++) toks.push_back(argv[i]);
    RunSpec s = parse_spec(toks);
    std::string r = run_one(s, wt);
    fwrite(r.data(), 1, r.size(), stdout);
    rc = r.find("\"verdict\":\"ok\"") != std::string::npos ? 0 : 1;
  }
  else if (argc >= 2 && strcmp(argv[1], "--info") == 0)
  {
    printf("{\"name\":\"%s\",\"property\":\"%s\"}\n", hi.name, hi.property);
  }
  else
  {
    fprintf(stderr, "usage: %s --worker | --one seed=N [tier=..] [mode=..] [verbose=1] | --info\n", argv[0]);
    rc = 2;
  }
  rm_rf(g_scratch_root);
  return rc;
}
