// simrt core: baton scheduler over real threads, interposed pthread synchronisation, simulated clock,
// futex emulation, choice streams, deterministic randomness. See /verif/DESIGN.md §2.1-2.3, §2.6.
// This translation unit is always compiled WITHOUT sanitizer instrumentation.
#include "internal.h"

#include <atomic>
#include <cerrno>
#include <cstdio>
#include <cstdlib>
#include <cstring>
#include <linux/futex.h>
#include <pthread.h>
#include <sched.h>
#include <sys/syscall.h>
#include <sys/time.h>
#include <unistd.h>
#include <time.h>
#include <algorithm>
#include <map>
#include <random>
#include <string>
#include <vector>

extern "C"
{
  void __tsan_acquire(void*) __attribute__((weak));
  void __tsan_release(void*) __attribute__((weak));
}
#define TSAN_ACQ(p) do { if (__tsan_acquire) __tsan_acquire((void*)(p)); } while (0)
#define TSAN_REL(p) do { if (__tsan_release) __tsan_release((void*)(p)); } while (0)

namespace simint
{
extern bool g_atomic_points __attribute__((weak)); // defined in tsan_atomic_wrap.cpp (TSan flavour only)
static bool g_atomic_points_dummy;
bool g_active = false;
thread_local int t_me = -1;
uint64_t g_now = 0;
RunSpec g_spec;
int g_result_fd = -1;

namespace
{
constexpr int MAXT = 16384;
enum St : int { FREE = 0, RUNNABLE, BLOCKED, DONE };
struct Thr
{
  St st = FREE;
  std::atomic<int> go{0};
  pthread_t real{};
  void* (*fn)(void*) = nullptr;
  void* arg = nullptr;
  BlockKind bk = B_NONE;
  const void* on = nullptr;
  uint64_t until = UINT64_MAX;
  bool until_wall = false;
  bool timedout = false;
  bool detached = false;
  bool joined = false;
  uint64_t prio = 0;     // PCT
  uint64_t starve = 0;
  uint64_t streak = 0;   // PCT: consecutive decisions while runnable
  uint32_t last_tag = 0;
  char name[24] = {0};
};
Thr th[MAXT];
int nth = 0;
int g_live[MAXT]; // indices of threads that are RUNNABLE or BLOCKED, in creation order
int g_nlive = 0;
void live_add(int i) { g_live[g_nlive++] = i; }
void live_del(int i)
{
  for (int k = 0; k < g_nlive; k++)
    if (g_live[k] == i)
    {
      for (int j = k; j + 1 < g_nlive; j++) g_live[j] = g_live[j + 1];
      g_nlive--;
      return;
    }
}
sim::Config cfg;
uint64_t g_steps = 0, g_switches = 0, g_preempts = 0, g_stamp = 0, g_stalled = 0, g_stalls = 0, g_spurious = 0, g_timejumps = 0;
uint64_t g_hash = 1469598103934665603ull, g_ilv = 1469598103934665603ull, g_state = 1469598103934665603ull;
int64_t g_wall_off_ms = 0;
pthread_key_t g_key;
bool g_key_ok = false;
std::vector<uint64_t> pct_points;
uint64_t pct_low = 1u << 19; // priorities handed out at change points go below every initial priority
std::function<std::string()> g_dl_describer;
std::map<const void*, std::string> g_objnames;
std::map<std::string, uint64_t> g_counters;
std::vector<std::string> g_log, g_notes;
NextFn g_next[4];
FireFn g_fire[4];
int g_nsrc = 0;

// ---- xoshiro256** per stream
struct Rng
{
  uint64_t s[4];
  static uint64_t splitmix(uint64_t& x)
  {
    uint64_t z = (x += 0x9e3779b97f4a7c15ull);
    z = (z ^ (z >> 30)) * 0xbf58476d1ce4e5b9ull;
    z = (z ^ (z >> 27)) * 0x94d049bb133111ebull;
    return z ^ (z >> 31);
  }
  void seed(uint64_t v) { for (auto& x : s) x = splitmix(v); }
  static uint64_t rotl(uint64_t x, int k) { return (x << k) | (x >> (64 - k)); }
  uint64_t next()
  {
    uint64_t r = rotl(s[1] * 5, 7) * 9, t = s[1] << 17;
    s[2] ^= s[0]; s[3] ^= s[1]; s[1] ^= s[2]; s[0] ^= s[3]; s[2] ^= t; s[3] = rotl(s[3], 45);
    return r;
  }
};
Rng rng[sim::NSTREAMS], rng_os;
uint64_t drawn[sim::NSTREAMS];

long rawfutex(std::atomic<int>* a, int op, int v)
{
  simint::TsanIgn _tsan_ign;
  long ret;
  register long r10 __asm__("r10") = 0;
  register long r8 __asm__("r8") = 0;
  register long r9 __asm__("r9") = 0;
  __asm__ volatile("syscall"
                   : "=a"(ret)
                   : "a"((long)SYS_futex), "D"(a), "S"((long)op), "d"((long)v), "r"(r10), "r"(r8), "r"(r9)
                   : "rcx", "r11", "memory");
  return ret;
}
void park(int i)
{
  simint::TsanIgn _tsan_ign;
  while (th[i].go.load(std::memory_order_acquire) == 0) rawfutex(&th[i].go, FUTEX_WAIT, 0);
  th[i].go.store(0, std::memory_order_relaxed);
}
void unpark(int i)
{
  simint::TsanIgn _tsan_ign;
  th[i].go.store(1, std::memory_order_release);
  rawfutex(&th[i].go, FUTEX_WAKE, 1);
}

const char* bkname(BlockKind k)
{
  simint::TsanIgn _tsan_ign;
  switch (k)
  {
  case B_MUTEX: return "mutex";
  case B_COND: return "cond";
  case B_RW: return "rwlock";
  case B_JOIN: return "join";
  case B_SLEEP: return "sleep";
  case B_FUTEX: return "futex";
  case B_FD: return "fd";
  case B_ONCE: return "once";
  case B_STALL: return "stall";
  default: return "-";
  }
}

uint64_t next_event_time()
{
  simint::TsanIgn _tsan_ign;
  uint64_t best = UINT64_MAX;
  for (int li = 0, i; li < g_nlive && ((i = g_live[li]), true); li++)
    if (th[i].st == BLOCKED && th[i].until < best) best = th[i].until;
  for (int k = 0; k < g_nsrc; k++)
  {
    uint64_t t = g_next[k]();
    if (t < best) best = t;
  }
  return best;
}
void expire_waiters()
{
  simint::TsanIgn _tsan_ign;
  for (int li = 0, i; li < g_nlive && ((i = g_live[li]), true); li++)
    if (th[i].st == BLOCKED && th[i].until <= g_now)
    {
      th[i].st = RUNNABLE;
      th[i].timedout = true;
      th[i].until = UINT64_MAX;
    }
}
void fire_sources()
{
  simint::TsanIgn _tsan_ign;
  for (int k = 0; k < g_nsrc; k++) g_fire[k]();
}

[[noreturn]] void report_deadlock()
{
  std::string m;
  if (g_dl_describer) m = g_dl_describer() + " | ";
  m += sim::threads_report();
  emit_result_and_exit("violation", "deadlock", m);
}

static int g_trace = -1;
// Choose the next thread to run and hand the baton over. Called by the baton holder after it has
// updated its own state (RUNNABLE / BLOCKED / DONE).
void schedule(bool yielding = false)
{
  simint::TsanIgn _tsan_ign;
  int self = t_me;
  for (;;)
  {
    int cand[MAXT];
    int nc = 0;
    for (int li = 0, i; li < g_nlive && ((i = g_live[li]), true); li++)
      if (th[i].st == RUNNABLE) cand[nc++] = i;
    if (nc == 0)
    {
      uint64_t t = next_event_time();
      if (t == UINT64_MAX) report_deadlock();
      if (t > g_now)
      {
        if (g_trace > 0 && g_steps >= (uint64_t)g_trace && g_steps < (uint64_t)g_trace + 400)
          fprintf(stderr, "TRACE step=%llu time jump +%llu ns (self t%d)\n", (unsigned long long)g_steps, (unsigned long long)(t - g_now), self);
        g_now = t;
        g_timejumps++;
      }
      expire_waiters();
      fire_sources();
      continue;
    }
    bool selfRunnable = self >= 0 && th[self].st == RUNNABLE;
    int pick = -1;
    // fairness: a thread starved beyond the bound is forced
    {
      uint64_t worst = 0;
      int wi = -1;
      for (int k = 0; k < nc; k++)
        if (th[cand[k]].starve > worst) { worst = th[cand[k]].starve; wi = cand[k]; }
      if (worst > cfg.starve_bound) pick = wi;
    }
    if (pick < 0 && yielding && selfRunnable && nc > 1 && cfg.strategy != sim::PCT)
    {
      // a yielding thread really gives way when somebody else can run
      int k = (int)raw_draw(sim::S, nc - 1);
      for (int j = 0; j < nc; j++)
      {
        if (cand[j] == self) continue;
        if (k-- == 0) { pick = cand[j]; break; }
      }
    }
    if (pick < 0)
    {
      switch (cfg.strategy)
      {
      case sim::RANDOM:
        pick = cand[raw_draw(sim::S, nc)];
        break;
      case sim::PCT:
      {
        // a thread that keeps running without ever blocking (busy polling) decays to the lowest priority:
        // real schedulers are fair, and strict priorities would starve everybody else behind a spinner
        if (selfRunnable && ++th[self].streak > 300)
        {
          th[self].streak = 0;
          th[self].prio = --pct_low;
        }
        uint64_t bestp = 0;
        for (int k = 0; k < nc; k++)
          if (pick < 0 || th[cand[k]].prio > bestp) { bestp = th[cand[k]].prio; pick = cand[k]; }
        break;
      }
      case sim::RR:
        // non-preemptive baseline, except that a busy-polling thread is rotated out after a while (fairness)
        if (selfRunnable && ++th[self].streak <= 300) pick = self;
        else
        {
          pick = cand[0];
          for (int k = 0; k < nc; k++)
            if (cand[k] > self) { pick = cand[k]; break; }
        }
        break;
      default: // STICKY
        if (selfRunnable && nc > 1)
        {
          uint64_t v = raw_draw(sim::S, 1000);
          if (v < 1000 - (uint64_t)cfg.preempt_permille) pick = self;
          else
          {
            // preempt: choose among the others
            int k = (int)raw_draw(sim::S, nc - 1);
            for (int j = 0; j < nc; j++)
            {
              if (cand[j] == self) continue;
              if (k-- == 0) { pick = cand[j]; break; }
            }
            g_preempts++;
          }
        }
        else if (selfRunnable) pick = self;
        else pick = cand[raw_draw(sim::S, nc)];
        break;
      }
    }
    for (int k = 0; k < nc; k++)
      if (cand[k] != pick) th[cand[k]].starve++;
    th[pick].starve = 0;
    if (pick == self) return;
    if (self >= 0) th[self].streak = 0;
    g_switches++;
    mix_ilv(((uint64_t)(self + 1) << 40) ^ ((uint64_t)(pick + 1) << 20) ^ (self >= 0 ? th[self].last_tag : 0));
    unpark(pick);
    if (self >= 0 && th[self].st != DONE) park(self);
    return;
  }
}

void thread_finish(int id)
{
  simint::TsanIgn _tsan_ign;
  th[id].st = DONE;
  live_del(id);
  for (int i = 0; i < nth; i++)
    if (th[i].st == BLOCKED && th[i].bk == B_JOIN && th[i].on == &th[id]) th[i].st = RUNNABLE;
  g_steps++;
  schedule(); // hands the baton away; does not park because we are DONE
}
void key_dtor(void* v)
{
  simint::TsanIgn _tsan_ign;
  // glibc runs the destructors of all keys round by round (PTHREAD_DESTRUCTOR_ITERATIONS = 4). Other libraries'
  // per-thread cleanup (OpenSSL's thread-stop handler, ...) may sit on keys created after ours and take interposed
  // locks; it must still run while this thread holds the baton. So re-arm our key for the first three rounds and
  // finish the simulated thread only in the last one, after every other destructor has run.
  intptr_t raw = (intptr_t)v;
  int id = (int)(raw & 0xfffff) - 1;
  int pass = (int)(raw >> 20);
  if (!g_active || id < 0) return;
  // (the sanitizer runtimes use the same trick and destroy their per-thread state - allocator caches - in the 4th and last
  // round, so the simulated thread is finished in the 3rd: it may still allocate while it hands the baton over)
  if (pass < 2)
  {
    pthread_setspecific(g_key, (void*)(intptr_t)(((intptr_t)(pass + 1) << 20) | (raw & 0xfffff)));
    return;
  }
  thread_finish(id);
}
void* tramp(void* p)
{
  int id = (int)(intptr_t)p;
  t_me = id;
  pthread_setspecific(g_key, (void*)(intptr_t)(id + 1));
  park(id);
  return th[id].fn(th[id].arg); // completion is signalled from key_dtor, after C++ thread_local destructors
}
int find_thread(pthread_t t)
{
  simint::TsanIgn _tsan_ign;
  for (int i = 1; i < nth; i++)
    if (th[i].st != FREE && !th[i].joined && pthread_equal(th[i].real, t)) return i;
  return -1;
}

uint64_t wall_base_ns() { return sim::EPOCH_BASE_S * 1000000000ull + (uint64_t)g_wall_off_ms * 1000000ull; }
uint64_t wall_now_ns()
{
  simint::TsanIgn _tsan_ign;
  uint64_t v = wall_base_ns() + g_now;
  if (cfg.wall_ms_aligned) v -= v % 1000000ull;
  return v;
}
uint64_t ts_ns(const timespec* ts) { return (uint64_t)ts->tv_sec * 1000000000ull + (uint64_t)ts->tv_nsec; }
// absolute time on clock k -> monotonic deadline
uint64_t abs_to_mono(clockid_t k, const timespec* ts)
{
  simint::TsanIgn _tsan_ign;
  uint64_t v = ts_ns(ts);
  if (k == CLOCK_REALTIME || k == CLOCK_REALTIME_COARSE || k == CLOCK_TAI)
  {
    uint64_t b = wall_base_ns();
    return v > b ? v - b : 0;
  }
  return v;
}
} // namespace

// ------------------------------------------------------------------ internal API
void mix(uint64_t v)
{
  simint::TsanIgn _tsan_ign;
  g_hash ^= v;
  g_hash *= 1099511628211ull;
}
void mix_ilv(uint64_t v)
{
  simint::TsanIgn _tsan_ign;
  g_ilv ^= v;
  g_ilv *= 1099511628211ull;
}
uint64_t raw_draw(int s, uint64_t n)
{
  simint::TsanIgn _tsan_ign;
  uint64_t idx = drawn[s]++;
  uint64_t r = rng[s].next();
  if (n <= 1) return 0;
  if (g_spec.replay)
  {
    auto it = g_spec.over[s].find(idx);
    if (it != g_spec.over[s].end()) return it->second % n;
    if (idx >= g_spec.len[s]) return 0;
    for (auto& z : g_spec.zero[s])
      if (idx >= z.first && idx < z.second) return 0;
  }
  return r % n;
}
void streams_reset()
{
  simint::TsanIgn _tsan_ign;
  for (int i = 0; i < sim::NSTREAMS; i++)
  {
    rng[i].seed(g_spec.seed * 0x9E3779B97F4A7C15ull + 0x1234567ull * (i + 1));
    drawn[i] = 0;
  }
  rng_os.seed(g_spec.seed ^ 0xfeedfacecafebeefull);
}
void add_time_source(NextFn n, FireFn f)
{
  simint::TsanIgn _tsan_ign;
  if (g_nsrc < 4) { g_next[g_nsrc] = n; g_fire[g_nsrc] = f; g_nsrc++; }
}
void count(const char* name, uint64_t inc) { g_counters[name] += inc; }
uint64_t counter(const char* name)
{
  simint::TsanIgn _tsan_ign;
  auto it = g_counters.find(name);
  return it == g_counters.end() ? 0 : it->second;
}

void point(uint32_t tag)
{
  simint::TsanIgn _tsan_ign;
  if (!on()) return;
  if (g_trace < 0) g_trace = getenv("SIMRT_TRACE") ? atoi(getenv("SIMRT_TRACE")) : 0;
  if (g_trace && g_steps >= (uint64_t)g_trace && g_steps < (uint64_t)g_trace + 400) fprintf(stderr, "TRACE step=%llu t%d tag=%x now=%llu\n", (unsigned long long)g_steps, t_me, tag, (unsigned long long)(g_now - 1000000000000ull));
  g_steps++;
  g_now += cfg.step_ns;
  mix(tag);
  th[t_me].last_tag = tag;
  if (g_steps > cfg.max_steps) emit_result_and_exit("violation", "livelock", "step limit exceeded | " + sim::threads_report());
  if (cfg.strategy == sim::PCT && !pct_points.empty() && g_steps >= pct_points.back())
  {
    pct_points.pop_back();
    th[t_me].prio = --pct_low;
  }
  // deliver whatever became due by the passage of simulated time
  if (next_event_time() <= g_now)
  {
    expire_waiters();
    fire_sources();
  }
  if (cfg.stall_ppm && cfg.stall_max_ns)
  {
    uint64_t v = raw_draw(sim::S, 1000000);
    if (v >= 1000000 - (uint64_t)cfg.stall_ppm)
    {
      uint64_t d = 1 + raw_draw(sim::S, cfg.stall_max_ns);
      g_stalled += d;
      g_stalls++;
      block(B_STALL, nullptr, g_now + d, tag);
      return;
    }
  }
  schedule();
}
bool block(BlockKind k, const void* onp, uint64_t until, uint32_t tag, bool wall)
{
  simint::TsanIgn _tsan_ign;
  Thr& t = th[t_me];
  t.st = BLOCKED;
  t.bk = k;
  t.on = onp;
  t.until = until;
  t.until_wall = wall;
  t.timedout = false;
  t.last_tag = tag;
  g_steps++;
  mix(tag ^ 0x80000000u);
  schedule();
  t.bk = B_NONE;
  t.on = nullptr;
  t.until = UINT64_MAX;
  return t.timedout;
}
void wake_all(BlockKind k, const void* onp)
{
  simint::TsanIgn _tsan_ign;
  for (int li = 0, i; li < g_nlive && ((i = g_live[li]), true); li++)
    if (th[i].st == BLOCKED && th[i].bk == k && th[i].on == onp)
    {
      th[i].st = RUNNABLE;
      th[i].until = UINT64_MAX;
    }
}
void wake_fd_waiters()
{
  simint::TsanIgn _tsan_ign;
  for (int li = 0, i; li < g_nlive && ((i = g_live[li]), true); li++)
    if (th[i].st == BLOCKED && th[i].bk == B_FD)
    {
      th[i].st = RUNNABLE;
      th[i].until = UINT64_MAX;
    }
}

std::string json_escape(const std::string& s)
{
  simint::TsanIgn _tsan_ign;
  std::string o;
  o.reserve(s.size() + 8);
  for (unsigned char c : s)
  {
    if (c == '"' || c == '\\') { o += '\\'; o += (char)c; }
    else if (c == '\n') o += "\\n";
    else if (c == '\t') o += "\\t";
    else if (c < 0x20 || c >= 0x7f) { char b[8]; snprintf(b, sizeof b, "\\u%04x", c); o += b; }
    else o += (char)c;
  }
  return o;
}

[[noreturn]] void emit_result_and_exit(const char* verdict, const char* oracle, const std::string& msg)
{
  g_active = false; // everything below passes through to the real libc
  std::string j = "{\"verdict\":\"";
  j += verdict;
  j += "\",\"oracle\":\"";
  j += json_escape(oracle ? oracle : "");
  j += "\",\"msg\":\"";
  j += json_escape(msg.size() > 4000 ? msg.substr(0, 4000) : msg);
  char b[512];
  snprintf(b, sizeof b,
           "\",\"seed\":%llu,\"hash\":\"%016llx\",\"ilv\":\"%016llx\",\"state\":\"%016llx\",\"steps\":%llu,\"switches\":%llu,"
           "\"preempts\":%llu,\"threads\":%d,\"sim_ns\":%llu,\"stalls\":%llu,\"stalled_ns\":%llu,\"spurious\":%llu,"
           "\"timejumps\":%llu,\"draws\":[%llu,%llu,%llu],\"counters\":{",
           (unsigned long long)g_spec.seed, (unsigned long long)g_hash, (unsigned long long)g_ilv, (unsigned long long)g_state,
           (unsigned long long)g_steps, (unsigned long long)g_switches, (unsigned long long)g_preempts, nth,
           (unsigned long long)g_now, (unsigned long long)g_stalls, (unsigned long long)g_stalled, (unsigned long long)g_spurious,
           (unsigned long long)g_timejumps, (unsigned long long)drawn[0], (unsigned long long)drawn[1], (unsigned long long)drawn[2]);
  j += b;
  bool first = true;
  for (auto& kv : g_counters)
  {
    if (!first) j += ',';
    first = false;
    j += '"' + json_escape(kv.first) + "\":" + std::to_string(kv.second);
  }
  j += "}";
  if (g_spec.verbose)
  {
    j += ",\"notes\":[";
    for (size_t i = 0; i < g_notes.size(); i++) { if (i) j += ','; j += '"' + json_escape(g_notes[i]) + '"'; }
    j += "],\"log\":[";
    size_t from = g_log.size() > 400 ? g_log.size() - 400 : 0;
    for (size_t i = from; i < g_log.size(); i++) { if (i > from) j += ','; j += '"' + json_escape(g_log[i]) + '"'; }
    j += "]";
  }
  j += "}\n";
  static auto rwrite = real_fn<ssize_t (*)(int, const void*, size_t)>("write");
  size_t off = 0;
  while (off < j.size())
  {
    ssize_t n = rwrite(g_result_fd >= 0 ? g_result_fd : 1, j.data() + off, j.size() - off);
    if (n <= 0) break;
    off += (size_t)n;
  }
  // leave through the raw system call: sanitizer exit hooks (TSan's Finalize changes the exit code and can wait on runtime
  // locks while every other thread is parked) must not run; reports have already been written when they were detected
  register long rdi __asm__("rdi") = 0;
  __asm__ volatile("syscall" : : "a"((long)SYS_exit_group), "r"(rdi) : "rcx", "r11", "memory");
  __builtin_unreachable();
}
} // namespace simint

using namespace simint;

// ==================================================================== public sim:: API
namespace sim
{
uint64_t draw(int stream, uint64_t n) { return raw_draw(stream, n); }
bool active() { return g_active; }
void begin(const Config& c)
{
  simint::TsanIgn _tsan_ign;
  cfg = c;
  if (const char* ms = getenv("SIMRT_MAX_STEPS")) cfg.max_steps = strtoull(ms, nullptr, 10); // debugging aid only
  if (&g_atomic_points) g_atomic_points = c.atomic_points;
  if (!g_key_ok) { pthread_key_create(&g_key, key_dtor); g_key_ok = true; }
  nth = 1;
  g_nlive = 0;
  live_add(0);
  th[0].st = RUNNABLE;
  th[0].real = pthread_self();
  snprintf(th[0].name, sizeof th[0].name, "main");
  t_me = 0;
  g_now = 1000ull * 1000000000ull; // monotonic clock starts at 1000 s
  g_active = true;
  if (cfg.strategy == PCT)
  {
    th[0].prio = (1u << 20) + raw_draw(S, 1u << 20);
    pct_points.clear();
    for (unsigned i = 0; i < cfg.pct_depth; i++) pct_points.push_back(1 + raw_draw(S, cfg.pct_horizon ? cfg.pct_horizon : 1));
    std::sort(pct_points.begin(), pct_points.end(), [](uint64_t a, uint64_t b) { return a > b; });
  }
}
void reconfigure(const Config& c)
{
  simint::TsanIgn _tsan_ign;
  int s = cfg.strategy;
  cfg = c;
  if (const char* ms = getenv("SIMRT_MAX_STEPS")) cfg.max_steps = strtoull(ms, nullptr, 10); // debugging aid only
  if (&g_atomic_points) g_atomic_points = c.atomic_points;
  if (s == PCT && c.strategy != PCT) pct_points.clear();
}
void end() { g_active = false; }
uint64_t now() { return g_now; }
uint64_t wall_ms() { return wall_now_ns() / 1000000ull; }
void wall_jump_ms(int64_t d)
{
  simint::TsanIgn _tsan_ign;
  g_wall_off_ms += d;
  // waiters on the wall clock see their deadline move
  for (int i = 0; i < nth; i++)
    if (th[i].st == BLOCKED && th[i].until_wall && th[i].until != UINT64_MAX)
    {
      uint64_t dn = (uint64_t)(d > 0 ? d : -d) * 1000000ull;
      if (d > 0) th[i].until = th[i].until > dn ? th[i].until - dn : 0;
      else th[i].until += dn;
    }
  logf("wall_jump %lld", (long long)d);
}
void advance_ns(uint64_t d)
{
  simint::TsanIgn _tsan_ign;
  g_now += d;
  expire_waiters();
  fire_sources();
}
void sleep_ns(uint64_t d)
{
  simint::TsanIgn _tsan_ign;
  if (!on()) return;
  point(0x601);
  block(B_SLEEP, nullptr, g_now + d, 0x602);
}
uint64_t stalled_ns() { return g_stalled; }
uint64_t stamp() { return ++g_stamp; }
int self() { return t_me; }
int thread_count() { return nth; }
int live_threads()
{
  simint::TsanIgn _tsan_ign;
  int n = 0;
  for (int li = 0, i; li < g_nlive && ((i = g_live[li]), true); li++) if (th[i].st == RUNNABLE || th[i].st == BLOCKED) n++;
  return n;
}
void point(uint32_t tag) { simint::point(tag); }
void logf(const char* fmt, ...)
{
  simint::TsanIgn _tsan_ign;
  char b[512];
  va_list ap;
  va_start(ap, fmt);
  int n = vsnprintf(b, sizeof b, fmt, ap);
  va_end(ap);
  if (n < 0) n = 0;
  if (n >= (int)sizeof b) n = sizeof b - 1;
  uint64_t h = 1469598103934665603ull;
  for (int i = 0; i < n; i++) { h ^= (unsigned char)b[i]; h *= 1099511628211ull; }
  mix(h);
  if (g_spec.verbose)
  {
    char p[64];
    snprintf(p, sizeof p, "[%llu t%d %llu.%06llus] ", (unsigned long long)g_stamp, t_me, (unsigned long long)(g_now / 1000000000ull),
             (unsigned long long)(g_now % 1000000000ull) / 1000);
    g_log.push_back(std::string(p) + b);
  }
}
void notef(const char* fmt, ...)
{
  simint::TsanIgn _tsan_ign;
  if (!g_spec.verbose) return;
  char b[1024];
  va_list ap;
  va_start(ap, fmt);
  vsnprintf(b, sizeof b, fmt, ap);
  va_end(ap);
  g_notes.push_back(b);
  fprintf(stderr, "NOTE: %s\n", b); // survives an abnormal end of the run (captured stderr)
}
void count(const char* name, uint64_t inc) { simint::count(name, inc); }
void state_mix(uint64_t v)
{
  simint::TsanIgn _tsan_ign;
  g_state ^= v;
  g_state *= 1099511628211ull;
}
void fail(const char* oracle, const char* fmt, ...)
{
  simint::TsanIgn _tsan_ign;
  char b[2048];
  va_list ap;
  va_start(ap, fmt);
  vsnprintf(b, sizeof b, fmt, ap);
  va_end(ap);
  emit_result_and_exit("violation", oracle, b);
}
void finish_ok() { emit_result_and_exit("ok", "", ""); }
bool verbose() { return g_spec.verbose; }
const char* tier() { return g_spec.tier.c_str(); }
uint64_t seed() { return g_spec.seed; }
const char* mode() { return g_spec.mode.c_str(); }
void set_deadlock_describer(std::function<std::string()> f) { g_dl_describer = std::move(f); }
void name_thread(const char* n)
{
  simint::TsanIgn _tsan_ign;
  if (t_me >= 0) snprintf(th[t_me].name, sizeof th[t_me].name, "%s", n);
}
void name_object(const void* o, const char* n) { g_objnames[o] = n; }
std::string threads_report()
{
  simint::TsanIgn _tsan_ign;
  std::string m;
  for (int i = 0; i < nth; i++)
  {
    if (th[i].st == DONE || th[i].st == FREE) continue;
    char b[160];
    std::string onn;
    auto it = g_objnames.find(th[i].on);
    if (it != g_objnames.end()) onn = it->second;
    snprintf(b, sizeof b, "t%d%s%s:%s%s%s%s ", i, th[i].name[0] ? "/" : "", th[i].name, th[i].st == RUNNABLE ? "runnable" : bkname(th[i].bk),
             onn.empty() ? "" : "(", onn.c_str(), onn.empty() ? "" : ")");
    m += b;
  }
  return m;
}
} // namespace sim

// ==================================================================== interposed symbols
extern "C"
{
// ---------------------------------------------------------------- threads
int pthread_create(pthread_t* t, const pthread_attr_t* a, void* (*fn)(void*), void* arg)
{
  simint::TsanIgn _tsan_ign;
  SIM_REAL(int, pthread_create, pthread_t*, const pthread_attr_t*, void* (*)(void*), void*);
  if (!on()) return real(t, a, fn, arg);
  int id = nth;
  if (id >= MAXT) emit_result_and_exit("error", "too-many-threads", "thread table exhausted");
  nth++;
  Thr& n = th[id];
  n.fn = fn;
  n.arg = arg;
  n.go.store(0);
  n.st = RUNNABLE;
  live_add(id);
  n.prio = (1u << 20) + raw_draw(sim::S, 1u << 20);
  int ds = 0;
  if (a) pthread_attr_getdetachstate(a, &ds);
  pthread_attr_t at;
  pthread_attr_init(&at);
  pthread_attr_setstacksize(&at, 4 << 20);
  int rc = real(&n.real, &at, tramp, (void*)(intptr_t)id);
  pthread_attr_destroy(&at);
  if (rc != 0)
  {
    n.st = FREE;
    live_del(id);
    nth--;
    return rc;
  }
  if (ds == PTHREAD_CREATE_DETACHED) n.detached = true; // real thread stays joinable; never joined => leaked at _exit
  *t = n.real;
  if (cfg.create_stall_permille && cfg.stall_max_ns && raw_draw(sim::S, 1000) >= 1000 - (uint64_t)cfg.create_stall_permille)
  {
    // the creator is descheduled right after clone(): the new thread runs first, possibly for a long time
    uint64_t d = 1 + raw_draw(sim::S, cfg.stall_max_ns);
    g_stalled += d;
    g_stalls++;
    block(B_STALL, nullptr, g_now + d, 0x101);
    return 0;
  }
  point(0x100);
  return 0;
}
int pthread_join(pthread_t t, void** r)
{
  simint::TsanIgn _tsan_ign;
  SIM_REAL(int, pthread_join, pthread_t, void**);
  int id = on() ? find_thread(t) : -1;
  if (id < 0) return real(t, r);
  point(0x110);
  while (th[id].st != DONE) block(B_JOIN, &th[id], UINT64_MAX, 0x111);
  th[id].joined = true;
  return real(t, r);
}
int pthread_detach(pthread_t t)
{
  simint::TsanIgn _tsan_ign;
  SIM_REAL(int, pthread_detach, pthread_t);
  int id = on() ? find_thread(t) : -1;
  if (id < 0) return real(t);
  th[id].detached = true;
  th[id].joined = true; // no longer addressable
  return real(t);
}
int sched_yield()
{
  simint::TsanIgn _tsan_ign;
  if (!on()) return 0;
  Thr& me = th[t_me];
  if (cfg.strategy == sim::PCT) me.prio = --pct_low;
  g_steps++;
  g_now += cfg.step_ns;
  mix(0x120);
  me.last_tag = 0x120;
  if (g_steps > cfg.max_steps) emit_result_and_exit("violation", "livelock", "step limit exceeded (yield loop) | " + sim::threads_report());
  if (next_event_time() <= g_now) { expire_waiters(); fire_sources(); }
  schedule(true);
  return 0;
}

// ---------------------------------------------------------------- mutex (state overlaid on glibc's layout)
struct MOver { int lock; unsigned count; int owner; unsigned nusers; int kind; };
static inline int mkind(const MOver* o) { return o->kind & 3; } // 0 normal(timed), 1 recursive, 2 errorcheck, 3 adaptive
static void m_acquire(pthread_mutex_t* m)
{
  simint::TsanIgn _tsan_ign;
  MOver* o = (MOver*)m;
  o->lock = 1;
  o->owner = t_me + 1;
  o->count = 1;
  TSAN_ACQ(m);
}
static void m_release(pthread_mutex_t* m)
{
  simint::TsanIgn _tsan_ign;
  MOver* o = (MOver*)m;
  if (o->count > 1 && mkind(o) == PTHREAD_MUTEX_RECURSIVE) { o->count--; return; }
  TSAN_REL(m);
  o->lock = 0;
  o->owner = 0;
  o->count = 0;
  wake_all(B_MUTEX, m);
}
static int m_lock(pthread_mutex_t* m, uint64_t until)
{
  simint::TsanIgn _tsan_ign;
  MOver* o = (MOver*)m;
  point(0x300);
  while (o->lock)
  {
    if (o->owner == t_me + 1)
    {
      if (mkind(o) == PTHREAD_MUTEX_RECURSIVE) { o->count++; return 0; }
      if (mkind(o) == PTHREAD_MUTEX_ERRORCHECK) return EDEADLK;
    }
    if (block(B_MUTEX, m, until, 0x301) && o->lock) return ETIMEDOUT;
  }
  m_acquire(m);
  return 0;
}
int pthread_mutex_lock(pthread_mutex_t* m)
{
  simint::TsanIgn _tsan_ign;
  SIM_REAL(int, pthread_mutex_lock, pthread_mutex_t*);
  if (!on()) return real(m);
  return m_lock(m, UINT64_MAX);
}
int pthread_mutex_trylock(pthread_mutex_t* m)
{
  simint::TsanIgn _tsan_ign;
  SIM_REAL(int, pthread_mutex_trylock, pthread_mutex_t*);
  if (!on()) return real(m);
  point(0x302);
  MOver* o = (MOver*)m;
  if (o->lock)
  {
    if (o->owner == t_me + 1 && mkind(o) == PTHREAD_MUTEX_RECURSIVE) { o->count++; return 0; }
    return EBUSY;
  }
  m_acquire(m);
  return 0;
}
int pthread_mutex_timedlock(pthread_mutex_t* m, const timespec* ts)
{
  simint::TsanIgn _tsan_ign;
  SIM_REAL(int, pthread_mutex_timedlock, pthread_mutex_t*, const timespec*);
  if (!on()) return real(m, ts);
  return m_lock(m, abs_to_mono(CLOCK_REALTIME, ts));
}
int pthread_mutex_clocklock(pthread_mutex_t* m, clockid_t k, const timespec* ts)
{
  simint::TsanIgn _tsan_ign;
  SIM_REAL(int, pthread_mutex_clocklock, pthread_mutex_t*, clockid_t, const timespec*);
  if (!on()) return real(m, k, ts);
  return m_lock(m, abs_to_mono(k, ts));
}
int pthread_mutex_unlock(pthread_mutex_t* m)
{
  simint::TsanIgn _tsan_ign;
  SIM_REAL(int, pthread_mutex_unlock, pthread_mutex_t*);
  if (!on()) return real(m);
  MOver* o = (MOver*)m;
  if (!o->lock) return 0; // unlocking an unlocked mutex: undefined for normal mutexes; glibc returns 0
  m_release(m);
  point(0x303);
  return 0;
}
int pthread_mutex_destroy(pthread_mutex_t* m)
{
  simint::TsanIgn _tsan_ign;
  SIM_REAL(int, pthread_mutex_destroy, pthread_mutex_t*);
  if (!on()) return real(m);
  return 0;
}

// ---------------------------------------------------------------- condition variables (side table)
static std::map<const void*, std::vector<int>>& cond_tab()
{
  simint::TsanIgn _tsan_ign;
  static std::map<const void*, std::vector<int>> t;
  return t;
}
static int c_wait(pthread_cond_t* c, pthread_mutex_t* m, uint64_t until, bool wall)
{
  simint::TsanIgn _tsan_ign;
  point(0x400); // scheduling point BEFORE registering as a waiter: the lost wake-up window
  auto& tab = cond_tab();
  tab[c].push_back(t_me);
  m_release(m);
  bool spur = false;
  if (cfg.spurious_ppm)
  {
    uint64_t v = raw_draw(sim::S, 1000000);
    if (v >= 1000000 - (uint64_t)cfg.spurious_ppm) spur = true;
  }
  bool to = false;
  if (spur)
  {
    g_spurious++;
    point(0x402);
  }
  else
  {
    to = block(B_COND, c, until, 0x401, wall);
  }
  {
    auto it = tab.find(c);
    if (it != tab.end())
    {
      auto& v = it->second;
      for (size_t i = 0; i < v.size(); i++)
        if (v[i] == t_me) { v.erase(v.begin() + i); break; }
      if (v.empty()) tab.erase(it);
    }
  }
  MOver* o = (MOver*)m;
  while (o->lock) block(B_MUTEX, m, UINT64_MAX, 0x403);
  m_acquire(m);
  return to ? ETIMEDOUT : 0;
}
static void c_wake(pthread_cond_t* c, bool all)
{
  simint::TsanIgn _tsan_ign;
  auto& tab = cond_tab();
  auto it = tab.find(c);
  if (it == tab.end()) return;
  std::vector<int> w;
  for (int id : it->second)
    if (th[id].st == BLOCKED && th[id].bk == B_COND && th[id].on == c) w.push_back(id);
  if (w.empty()) return;
  std::sort(w.begin(), w.end());
  if (all)
  {
    for (int id : w) { th[id].st = RUNNABLE; th[id].until = UINT64_MAX; th[id].timedout = false; }
  }
  else
  {
    int id = w[raw_draw(sim::S, w.size())];
    th[id].st = RUNNABLE;
    th[id].until = UINT64_MAX;
    th[id].timedout = false;
  }
}
int pthread_cond_wait(pthread_cond_t* c, pthread_mutex_t* m)
{
  simint::TsanIgn _tsan_ign;
  SIM_REAL(int, pthread_cond_wait, pthread_cond_t*, pthread_mutex_t*);
  if (!on()) return real(c, m);
  return c_wait(c, m, UINT64_MAX, false);
}
int pthread_cond_timedwait(pthread_cond_t* c, pthread_mutex_t* m, const timespec* ts)
{
  simint::TsanIgn _tsan_ign;
  SIM_REAL(int, pthread_cond_timedwait, pthread_cond_t*, pthread_mutex_t*, const timespec*);
  if (!on()) return real(c, m, ts);
  return c_wait(c, m, abs_to_mono(CLOCK_REALTIME, ts), true);
}
int pthread_cond_clockwait(pthread_cond_t* c, pthread_mutex_t* m, clockid_t k, const timespec* ts)
{
  simint::TsanIgn _tsan_ign;
  SIM_REAL(int, pthread_cond_clockwait, pthread_cond_t*, pthread_mutex_t*, clockid_t, const timespec*);
  if (!on()) return real(c, m, k, ts);
  return c_wait(c, m, abs_to_mono(k, ts), k == CLOCK_REALTIME);
}
int pthread_cond_signal(pthread_cond_t* c)
{
  simint::TsanIgn _tsan_ign;
  SIM_REAL(int, pthread_cond_signal, pthread_cond_t*);
  if (!on()) return real(c);
  point(0x410);
  c_wake(c, false);
  return 0;
}
int pthread_cond_broadcast(pthread_cond_t* c)
{
  simint::TsanIgn _tsan_ign;
  SIM_REAL(int, pthread_cond_broadcast, pthread_cond_t*);
  if (!on()) return real(c);
  point(0x411);
  c_wake(c, true);
  return 0;
}
int pthread_cond_destroy(pthread_cond_t* c)
{
  simint::TsanIgn _tsan_ign;
  SIM_REAL(int, pthread_cond_destroy, pthread_cond_t*);
  if (!on()) return real(c);
  cond_tab().erase(c);
  return 0;
}

// ---------------------------------------------------------------- callers whose lock traffic is not a scheduling point
// OpenSSL 3 takes thousands of internal rwlocks per context/handshake. They are not part of any property; mutual exclusion is
// still enforced (a contended lock blocks), only the voluntary scheduling points at lock/unlock/once are skipped when the
// caller is libcrypto/libssl.
#include <link.h>
struct QuietRange { uintptr_t lo, hi; };
static QuietRange g_quiet[8];
static int g_nquiet = -1;
static int quiet_cb(struct dl_phdr_info* info, size_t, void*)
{
  simint::TsanIgn _tsan_ign;
  const char* n = info->dlpi_name ? info->dlpi_name : "";
  if (!strstr(n, "libcrypto") && !strstr(n, "libssl")) return 0;
  for (int i = 0; i < info->dlpi_phnum && g_nquiet < 8; i++)
    if (info->dlpi_phdr[i].p_type == PT_LOAD && (info->dlpi_phdr[i].p_flags & PF_X))
    {
      g_quiet[g_nquiet].lo = info->dlpi_addr + info->dlpi_phdr[i].p_vaddr;
      g_quiet[g_nquiet].hi = g_quiet[g_nquiet].lo + info->dlpi_phdr[i].p_memsz;
      g_nquiet++;
    }
  return 0;
}
static inline bool quiet_caller(void* ra)
{
  simint::TsanIgn _tsan_ign;
  if (g_nquiet < 0) { g_nquiet = 0; dl_iterate_phdr(quiet_cb, nullptr); }
  uintptr_t a = (uintptr_t)ra;
  for (int i = 0; i < g_nquiet; i++) if (a >= g_quiet[i].lo && a < g_quiet[i].hi) return true;
  return false;
}
#define QPOINT(tag, ra) do { if (!quiet_caller(ra)) point(tag); } while (0)

// ---------------------------------------------------------------- rwlock (side table)
struct RW { int writer = -1; int readers = 0; };
static std::map<const void*, RW>& rw_tab()
{
  simint::TsanIgn _tsan_ign;
  static std::map<const void*, RW> t;
  return t;
}
static int rw_lock(pthread_rwlock_t* l, bool wr, uint64_t until, bool tryonly, void* ra)
{
  simint::TsanIgn _tsan_ign;
  QPOINT(wr ? 0x501 : 0x500, ra);
  auto& tab = rw_tab();
  for (;;)
  {
    RW& r = tab[l];
    bool busy = wr ? (r.writer >= 0 || r.readers > 0) : (r.writer >= 0);
    if (!busy)
    {
      if (wr) r.writer = t_me; else r.readers++;
      TSAN_ACQ(l);
      return 0;
    }
    if (wr && r.writer == t_me) return EDEADLK;
    if (tryonly) return EBUSY;
    if (block(B_RW, l, until, 0x502)) return ETIMEDOUT;
  }
}
int pthread_rwlock_rdlock(pthread_rwlock_t* l)
{
  simint::TsanIgn _tsan_ign;
  SIM_REAL(int, pthread_rwlock_rdlock, pthread_rwlock_t*);
  if (!on()) return real(l);
  return rw_lock(l, false, UINT64_MAX, false, __builtin_return_address(0));
}
int pthread_rwlock_wrlock(pthread_rwlock_t* l)
{
  simint::TsanIgn _tsan_ign;
  SIM_REAL(int, pthread_rwlock_wrlock, pthread_rwlock_t*);
  if (!on()) return real(l);
  return rw_lock(l, true, UINT64_MAX, false, __builtin_return_address(0));
}
int pthread_rwlock_tryrdlock(pthread_rwlock_t* l)
{
  simint::TsanIgn _tsan_ign;
  SIM_REAL(int, pthread_rwlock_tryrdlock, pthread_rwlock_t*);
  if (!on()) return real(l);
  return rw_lock(l, false, 0, true, __builtin_return_address(0));
}
int pthread_rwlock_trywrlock(pthread_rwlock_t* l)
{
  simint::TsanIgn _tsan_ign;
  SIM_REAL(int, pthread_rwlock_trywrlock, pthread_rwlock_t*);
  if (!on()) return real(l);
  return rw_lock(l, true, 0, true, __builtin_return_address(0));
}
int pthread_rwlock_timedrdlock(pthread_rwlock_t* l, const timespec* ts)
{
  simint::TsanIgn _tsan_ign;
  SIM_REAL(int, pthread_rwlock_timedrdlock, pthread_rwlock_t*, const timespec*);
  if (!on()) return real(l, ts);
  return rw_lock(l, false, abs_to_mono(CLOCK_REALTIME, ts), false, __builtin_return_address(0));
}
int pthread_rwlock_timedwrlock(pthread_rwlock_t* l, const timespec* ts)
{
  simint::TsanIgn _tsan_ign;
  SIM_REAL(int, pthread_rwlock_timedwrlock, pthread_rwlock_t*, const timespec*);
  if (!on()) return real(l, ts);
  return rw_lock(l, true, abs_to_mono(CLOCK_REALTIME, ts), false, __builtin_return_address(0));
}
int pthread_rwlock_clockrdlock(pthread_rwlock_t* l, clockid_t k, const timespec* ts)
{
  simint::TsanIgn _tsan_ign;
  SIM_REAL(int, pthread_rwlock_clockrdlock, pthread_rwlock_t*, clockid_t, const timespec*);
  if (!on()) return real(l, k, ts);
  return rw_lock(l, false, abs_to_mono(k, ts), false, __builtin_return_address(0));
}
int pthread_rwlock_clockwrlock(pthread_rwlock_t* l, clockid_t k, const timespec* ts)
{
  simint::TsanIgn _tsan_ign;
  SIM_REAL(int, pthread_rwlock_clockwrlock, pthread_rwlock_t*, clockid_t, const timespec*);
  if (!on()) return real(l, k, ts);
  return rw_lock(l, true, abs_to_mono(k, ts), false, __builtin_return_address(0));
}
int pthread_rwlock_unlock(pthread_rwlock_t* l)
{
  simint::TsanIgn _tsan_ign;
  SIM_REAL(int, pthread_rwlock_unlock, pthread_rwlock_t*);
  if (!on()) return real(l);
  auto& tab = rw_tab();
  auto it = tab.find(l);
  if (it == tab.end()) return 0;
  RW& r = it->second;
  TSAN_REL(l);
  if (r.writer == t_me) r.writer = -1;
  else if (r.readers > 0) r.readers--;
  else r.writer = -1;
  bool freeNow = r.writer < 0 && r.readers == 0;
  if (freeNow) tab.erase(it);
  wake_all(B_RW, l);
  QPOINT(0x503, __builtin_return_address(0));
  return 0;
}
int pthread_rwlock_destroy(pthread_rwlock_t* l)
{
  simint::TsanIgn _tsan_ign;
  SIM_REAL(int, pthread_rwlock_destroy, pthread_rwlock_t*);
  if (!on()) return real(l);
  rw_tab().erase(l);
  return 0;
}

// ---------------------------------------------------------------- once
static std::map<const void*, int>& once_tab()
{
  simint::TsanIgn _tsan_ign;
  static std::map<const void*, int> t;
  return t;
}
int pthread_once(pthread_once_t* ctl, void (*fn)(void))
{
  simint::TsanIgn _tsan_ign;
  SIM_REAL(int, pthread_once, pthread_once_t*, void (*)(void));
  if (!on()) return real(ctl, fn);
  QPOINT(0x520, __builtin_return_address(0));
  auto& tab = once_tab();
  for (;;)
  {
    if (*(volatile int*)ctl == 2) { TSAN_ACQ(ctl); return 0; }
    auto it = tab.find(ctl);
    if (it == tab.end()) break;
    block(B_ONCE, ctl, UINT64_MAX, 0x521);
  }
  tab[ctl] = t_me;
  try
  {
    simint::TsanUnIgn _user;
    fn();
  }
  catch (...)
  {
    tab.erase(ctl);
    wake_all(B_ONCE, ctl);
    throw;
  }
  TSAN_REL(ctl);
  *(volatile int*)ctl = 2;
  tab.erase(ctl);
  wake_all(B_ONCE, ctl);
  return 0;
}

// ---------------------------------------------------------------- clock and sleeping
int clock_gettime(clockid_t k, timespec* ts)
{
  simint::TsanIgn _tsan_ign;
  SIM_REAL(int, clock_gettime, clockid_t, timespec*);
  if (!on()) return real(k, ts);
  uint64_t v;
  switch (k)
  {
  case CLOCK_REALTIME:
  case CLOCK_REALTIME_COARSE:
  case CLOCK_TAI: v = wall_now_ns(); break;
  default: v = g_now; break; // MONOTONIC, MONOTONIC_RAW, BOOTTIME, cpu-time clocks
  }
  ts->tv_sec = (time_t)(v / 1000000000ull);
  ts->tv_nsec = (long)(v % 1000000000ull);
  return 0;
}
int gettimeofday(struct timeval* tv, void* tz)
{
  simint::TsanIgn _tsan_ign;
  typedef int (*F)(struct timeval*, void*);
  static F real = simint::real_fn<F>("gettimeofday");
  if (!on()) return real(tv, tz);
  uint64_t v = wall_now_ns();
  tv->tv_sec = (time_t)(v / 1000000000ull);
  tv->tv_usec = (suseconds_t)((v % 1000000000ull) / 1000);
  return 0;
}
time_t time(time_t* t)
{
  simint::TsanIgn _tsan_ign;
  SIM_REAL(time_t, time, time_t*);
  if (!on()) return real(t);
  time_t v = (time_t)(wall_now_ns() / 1000000000ull);
  if (t) *t = v;
  return v;
}
int nanosleep(const timespec* a, timespec* b)
{
  simint::TsanIgn _tsan_ign;
  SIM_REAL(int, nanosleep, const timespec*, timespec*);
  if (!on()) return real(a, b);
  point(0x600);
  block(B_SLEEP, nullptr, g_now + ts_ns(a), 0x601);
  if (b) { b->tv_sec = 0; b->tv_nsec = 0; }
  return 0;
}
int clock_nanosleep(clockid_t k, int flags, const timespec* a, timespec* b)
{
  simint::TsanIgn _tsan_ign;
  SIM_REAL(int, clock_nanosleep, clockid_t, int, const timespec*, timespec*);
  if (!on()) return real(k, flags, a, b);
  point(0x602);
  uint64_t until = (flags & TIMER_ABSTIME) ? abs_to_mono(k, a) : g_now + ts_ns(a);
  block(B_SLEEP, nullptr, until, 0x603);
  if (b) { b->tv_sec = 0; b->tv_nsec = 0; }
  return 0;
}
int usleep(useconds_t us)
{
  simint::TsanIgn _tsan_ign;
  SIM_REAL(int, usleep, useconds_t);
  if (!on()) return real(us);
  point(0x604);
  block(B_SLEEP, nullptr, g_now + (uint64_t)us * 1000ull, 0x605);
  return 0;
}
unsigned sleep(unsigned s)
{
  simint::TsanIgn _tsan_ign;
  SIM_REAL(unsigned, sleep, unsigned);
  if (!on()) return real(s);
  point(0x606);
  block(B_SLEEP, nullptr, g_now + (uint64_t)s * 1000000000ull, 0x607);
  return 0;
}

// ---------------------------------------------------------------- futex + getrandom through syscall()
long sim_syscall_impl(long n, long a, long b, long c, long d, long e, long g) __asm__("syscall");
__attribute__((no_sanitize_address)) long sim_syscall_impl(long n, long a, long b, long c, long d, long e, long g)
{
  simint::TsanIgn _tsan_ign;
  static auto real = (long (*)(long, ...))dlsym(RTLD_NEXT, "syscall");
  if (on() && n == SYS_futex)
  {
    int op = (int)b & ~(FUTEX_PRIVATE_FLAG | FUTEX_CLOCK_REALTIME);
    int* addr = (int*)a;
    if (op == FUTEX_WAIT || op == FUTEX_WAIT_BITSET)
    {
      point(0x700);
      if (__atomic_load_n(addr, __ATOMIC_SEQ_CST) != (int)c) { errno = EAGAIN; return -1; }
      uint64_t until = UINT64_MAX;
      if (d)
      {
        const timespec* ts = (const timespec*)d;
        if (op == FUTEX_WAIT) until = g_now + ts_ns(ts);
        else until = abs_to_mono(((int)b & FUTEX_CLOCK_REALTIME) ? CLOCK_REALTIME : CLOCK_MONOTONIC, ts);
      }
      bool to = block(B_FUTEX, addr, until, 0x701);
      TSAN_ACQ(addr);
      if (to) { errno = ETIMEDOUT; return -1; }
      return 0;
    }
    if (op == FUTEX_WAKE || op == FUTEX_WAKE_BITSET)
    {
      point(0x702);
      TSAN_REL(addr);
      int nw = 0;
      for (int i = 0; i < nth && nw < (int)c; i++)
        if (th[i].st == BLOCKED && th[i].bk == B_FUTEX && th[i].on == addr)
        {
          th[i].st = RUNNABLE;
          th[i].until = UINT64_MAX;
          th[i].timedout = false;
          nw++;
        }
      return nw;
    }
  }
  if (on() && n == SYS_getrandom)
  {
    unsigned char* p = (unsigned char*)a;
    for (long i = 0; i < b; i++) p[i] = (unsigned char)rng_os.next();
    return b;
  }
  return real(n, a, b, c, d, e, g);
}

ssize_t getrandom(void* buf, size_t n, unsigned flags)
{
  simint::TsanIgn _tsan_ign;
  SIM_REAL(ssize_t, getrandom, void*, size_t, unsigned);
  if (!on()) return real(buf, n, flags);
  unsigned char* p = (unsigned char*)buf;
  for (size_t i = 0; i < n; i++) p[i] = (unsigned char)rng_os.next();
  return (ssize_t)n;
}
int getentropy(void* buf, size_t n)
{
  simint::TsanIgn _tsan_ign;
  SIM_REAL(int, getentropy, void*, size_t);
  if (!on()) return real(buf, n);
  unsigned char* p = (unsigned char*)buf;
  for (size_t i = 0; i < n; i++) p[i] = (unsigned char)rng_os.next();
  return 0;
}
pid_t getpid(void)
{
  simint::TsanIgn _tsan_ign;
  SIM_REAL(pid_t, getpid);
  if (!on()) return real();
  return 4242;
}
} // extern "C"

// std::random_device in iora draws from the workload-independent OS stream (deterministic per seed)
namespace std
{
unsigned int random_device::_M_getval()
{
  if (!on())
  {
    static unsigned x = 12345;
    x = x * 1103515245u + 12345u;
    return x;
  }
  return (unsigned)rng_os.next();
}
// Every std::hash of raw bytes funnels here. pthread_t values (addresses) of live simulated threads are
// replaced by the thread's creation index so that unordered containers keyed by thread::id iterate in a
// process-independent order.
size_t _Hash_bytes(const void* ptr, size_t len, size_t seed)
{
  const unsigned char* p = (const unsigned char*)ptr;
  unsigned char tmp[8];
  if (len == sizeof(pthread_t) && g_active)
  {
    pthread_t v;
    memcpy(&v, ptr, sizeof v);
    // newest thread with this pthread_t wins: the value stays mapped after the thread finished (containers may still
    // hold its id until it is joined); a reused pthread_t resolves to the newer thread
    for (int i = nth - 1; i >= 0; i--)
      if (th[i].st != FREE && th[i].real == v)
      {
        uint64_t idx = 0x7468720000000000ull + (uint64_t)i;
        memcpy(tmp, &idx, 8);
        p = tmp;
        break;
      }
  }
  uint64_t h = 1469598103934665603ull ^ seed;
  for (size_t i = 0; i < len; i++) { h ^= p[i]; h *= 1099511628211ull; }
  h ^= h >> 29;
  h *= 0xbf58476d1ce4e5b9ull;
  h ^= h >> 32;
  return (size_t)h;
}
} // namespace std
