// simrt simulated kernel: eventfd, timerfd, epoll, TCP, UDP, name resolution (DESIGN.md §2.4).
// Compiled without sanitizer instrumentation. All state is protected by the scheduler's baton.
#include "internal.h"

#include <arpa/inet.h>
#include <cerrno>
#include <cstdarg>
#include <cstdio>
#include <cstdlib>
#include <cstring>
#include <deque>
#include <fcntl.h>
#include <map>
#include <memory>
#include <netdb.h>
#include <netinet/in.h>
#include <netinet/tcp.h>
#include <poll.h>
#include <queue>
#include <set>
#include <string>
#include <sys/epoll.h>
#include <sys/eventfd.h>
#include <sys/ioctl.h>
#include <sys/socket.h>
#include <sys/timerfd.h>
#include <sys/uio.h>
#include <unistd.h>
#include <vector>
#include <algorithm>

using namespace simint;

namespace
{
constexpr int FDBASE = 1 << 20;
enum Kind { K_FREE = 0, K_EVENT, K_TIMER, K_EPOLL, K_TCP, K_LISTEN, K_UDP };
enum TcpState { T_NEW = 0, T_SYN_SENT, T_EST, T_CLOSED };

struct Seg
{
  uint64_t at;
  std::string data;
  bool fin = false;
};
struct Pipe // bytes flowing towards one side
{
  std::deque<Seg> flight;
  size_t flight_bytes = 0;
  std::string rcv; // delivered, unread (front at rcv_off)
  size_t rcv_off = 0;
  bool eof = false;     // FIN delivered
  bool fin_queued = false;
  size_t avail() const { return rcv.size() - rcv_off; }
};
struct Conn
{
  int id = 0;
  int fd[2] = {-1, -1};      // 0 = connector, 1 = acceptor
  bool open[2] = {true, true};
  bool accepted = false;     // acceptor fd handed out by accept()
  Pipe to[2];                // to[i]: data travelling towards side i
  int err[2] = {0, 0};       // pending socket error (ECONNRESET ...)
  bool dead[2] = {false, false}; // RST received or sent: no more traffic
  bool nospace[2] = {false, false};
  bool shut_wr[2] = {false, false};
  size_t sndcap[2], rcvcap[2];
  sockaddr_in addr[2];
  std::string sent[2];
  uint64_t last_at[2] = {0, 0}; // delivery time of the last segment queued towards side i (keeps order)
};
struct UdpMsg
{
  sockaddr_in src;
  std::string data;
};
struct Reg
{
  uint32_t ev = 0;
  uint64_t data = 0;
  bool queued = false;
};
struct Fd
{
  Kind k = K_FREE;
  bool nonblock = false;
  // eventfd / timerfd
  uint64_t counter = 0;
  bool sema = false;
  uint64_t expiry = UINT64_MAX, interval = 0;
  int clock = CLOCK_MONOTONIC;
  // epoll
  std::map<int, Reg> regs;
  std::vector<int> watchers; // epoll fds that watch this fd
  // sockets
  sockaddr_in local{}, remote{};
  bool bound = false, connected_udp = false;
  TcpState ts = T_NEW;
  int conn = -1, side = 0;
  int soerr = 0; // for sockets without a Conn (refused connects) and UDP
  std::deque<int> acceptq; // conn ids
  int backlog = 128;
  bool linger0 = false;
  uint64_t rcvtimeo = 0, sndtimeo = 0;
  uint64_t connect_at = UINT64_MAX;
  bool reuseport = false;
  // UDP
  std::deque<UdpMsg> dq;
  size_t inflight = 0;
  bool nospace = false;
};

struct Ev
{
  uint64_t at, seq;
  int kind; // 0 seg-arrive(conn,side) 1 connect-done(fd,gen) 2 udp-arrive(idx) 3 rst-arrive(conn,side) 4 writable-again(fd,gen)
  int a, b;
  bool operator<(const Ev& o) const { return at != o.at ? at > o.at : seq > o.seq; }
};

sim::net::NetConfig ncfg;
std::vector<std::unique_ptr<Fd>> fds;
std::vector<uint32_t> fdgen;
std::vector<std::unique_ptr<Conn>> conns;
std::priority_queue<Ev> evq;
uint64_t evseq = 0;
std::map<std::string, std::string> hosts;
std::set<std::pair<uint32_t, int>> blackholes;
uint64_t resolve_delay = 0, refuse_delay = 0;
std::map<std::pair<uint32_t, int>, uint64_t> connect_delays; // per destination SYN-ACK delay (port 0 = any port of that address)
uint16_t next_port = 40000;
struct UdpFlight { sockaddr_in src, dst; std::string data; int from_fd; uint32_t from_gen; bool counted; };
std::vector<UdpFlight> udp_flights;
std::vector<sim::net::Dgram> udp_log;
bool registered = false;

inline bool isfd(int fd) { return fd >= FDBASE && (size_t)(fd - FDBASE) < fds.size() && fds[fd - FDBASE] && fds[fd - FDBASE]->k != K_FREE; }
inline Fd* F(int fd) { return isfd(fd) ? fds[fd - FDBASE].get() : nullptr; }
int alloc_fd(Kind k)
{
  size_t i = 0;
  for (; i < fds.size(); i++)
    if (!fds[i] || fds[i]->k == K_FREE) break;
  if (i == fds.size()) { fds.emplace_back(); fdgen.push_back(0); }
  fds[i].reset(new Fd());
  fds[i]->k = k;
  fdgen[i]++;
  return FDBASE + (int)i;
}
void push_ev(uint64_t at, int kind, int a, int b) { evq.push(Ev{at, ++evseq, kind, a, b}); }
std::string addr_str(const sockaddr_in& a)
{
  char b[64], ip[32];
  inet_ntop(AF_INET, &a.sin_addr, ip, sizeof ip);
  snprintf(b, sizeof b, "%s:%d", ip, ntohs(a.sin_port));
  return b;
}
uint64_t lat()
{
  uint64_t j = ncfg.jitter_ns ? raw_draw(sim::F, ncfg.jitter_ns + 1) : 0;
  return ncfg.latency_ns + j;
}

// ------------------------------------------------------------------ readiness
size_t tcp_room(Conn& c, int side) // how many bytes side may send now
{
  Pipe& p = c.to[1 - side];
  return c.sndcap[side] > p.flight_bytes ? c.sndcap[side] - p.flight_bytes : 0;
}
bool tcp_writable(Conn& c, int side)
{
  size_t room = tcp_room(c, side);
  size_t need = ncfg.wr_threshold_third ? std::max<size_t>(1, c.sndcap[side] / 3) : 1;
  return room >= need;
}
uint32_t readiness(int fd)
{
  Fd* f = F(fd);
  if (!f) return 0;
  uint32_t m = 0;
  switch (f->k)
  {
  case K_EVENT:
    if (f->counter) m |= EPOLLIN;
    m |= EPOLLOUT;
    break;
  case K_TIMER:
    if (f->counter) m |= EPOLLIN;
    break;
  case K_LISTEN:
    if (!f->acceptq.empty()) m |= EPOLLIN;
    break;
  case K_UDP:
    if (!f->dq.empty()) m |= EPOLLIN;
    if (f->soerr) m |= EPOLLERR;
    if (!(ncfg.udp_snd_budget && f->inflight >= ncfg.udp_snd_budget)) m |= EPOLLOUT;
    break;
  case K_TCP:
    if (f->ts == T_NEW) { m |= EPOLLOUT | EPOLLHUP; break; }
    if (f->ts == T_SYN_SENT) break;
    if (f->conn < 0) // failed connect
    {
      m |= EPOLLIN | EPOLLOUT | EPOLLHUP | EPOLLRDHUP;
      if (f->soerr) m |= EPOLLERR;
      break;
    }
    {
      Conn& c = *conns[f->conn];
      int s = f->side;
      Pipe& in = c.to[s];
      if (c.dead[s])
      {
        m |= EPOLLIN | EPOLLOUT | EPOLLHUP | EPOLLRDHUP;
        if (c.err[s]) m |= EPOLLERR;
        break;
      }
      if (in.avail() > 0) m |= EPOLLIN;
      if (in.eof) m |= EPOLLIN | EPOLLRDHUP;
      if (in.eof && c.shut_wr[s]) m |= EPOLLHUP;
      if (!c.shut_wr[s] && tcp_writable(c, s)) m |= EPOLLOUT;
      if (c.err[s]) m |= EPOLLERR;
    }
    break;
  default: break;
  }
  return m;
}
void activity(int fd, uint32_t mask)
{
  Fd* f = F(fd);
  if (!f) return;
  for (int ep : f->watchers)
  {
    Fd* e = F(ep);
    if (!e) continue;
    auto it = e->regs.find(fd);
    if (it == e->regs.end()) continue;
    if (mask & (it->second.ev | EPOLLERR | EPOLLHUP)) it->second.queued = true;
  }
  wake_fd_waiters();
}

// ------------------------------------------------------------------ TCP machinery
void try_deliver(Conn& c, int side) // move due segments from flight into side's receive buffer
{
  Pipe& p = c.to[side];
  bool got = false, freed = false;
  while (!p.flight.empty() && p.flight.front().at <= g_now)
  {
    Seg& s = p.flight.front();
    if (!c.open[side] || c.dead[side])
    {
      // endpoint gone: data to a closed socket provokes a reset towards the sender
      bool hadData = !s.data.empty();
      p.flight_bytes -= s.data.size();
      p.flight.pop_front();
      freed = true;
      if (hadData && !c.dead[1 - side] && !c.dead[side])
      {
        c.dead[side] = true;
        push_ev(std::max(c.last_at[1 - side], g_now + lat()), 3, c.id, 1 - side);
      }
      continue;
    }
    if (!s.data.empty())
    {
      size_t room = c.rcvcap[side] > p.avail() ? c.rcvcap[side] - p.avail() : 0;
      if (room == 0) break; // receiver window closed
      size_t k = std::min(room, s.data.size());
      if (p.rcv_off > 65536 && p.rcv_off * 2 > p.rcv.size()) { p.rcv.erase(0, p.rcv_off); p.rcv_off = 0; }
      p.rcv.append(s.data, 0, k);
      p.flight_bytes -= k;
      got = true;
      freed = true;
      if (k < s.data.size()) { s.data.erase(0, k); break; }
    }
    if (s.fin) { p.eof = true; got = true; }
    p.flight.pop_front();
  }
  if (got && c.open[side]) activity(c.fd[side], EPOLLIN | EPOLLRDHUP);
  if (freed && c.open[1 - side] && c.nospace[1 - side] && tcp_writable(c, 1 - side))
  {
    c.nospace[1 - side] = false;
    activity(c.fd[1 - side], EPOLLOUT);
  }
  else if (freed) wake_fd_waiters();
}
void queue_bytes(Conn& c, int from, const char* b, size_t n)
{
  Pipe& p = c.to[1 - from];
  size_t off = 0;
  while (off < n)
  {
    size_t k = std::min(n - off, ncfg.mss ? ncfg.mss : 1460);
    uint64_t at = std::max(c.last_at[1 - from], g_now + lat());
    c.last_at[1 - from] = at;
    Seg s;
    s.at = at;
    s.data.assign(b + off, k);
    p.flight.push_back(std::move(s));
    p.flight_bytes += k;
    push_ev(at, 0, c.id, 1 - from);
    off += k;
  }
  if (ncfg.tap) c.sent[from].append(b, n);
}
void queue_fin(Conn& c, int from)
{
  Pipe& p = c.to[1 - from];
  if (p.fin_queued) return;
  p.fin_queued = true;
  uint64_t at = std::max(c.last_at[1 - from], g_now + lat());
  c.last_at[1 - from] = at;
  Seg s;
  s.at = at;
  s.fin = true;
  p.flight.push_back(std::move(s));
  push_ev(at, 0, c.id, 1 - from);
}
void send_rst(Conn& c, int from)
{
  if (c.dead[from] && c.dead[1 - from]) return;
  c.dead[from] = true;
  // The reset travels behind whatever this side had already transmitted (same path, in order): segments in flight towards the
  // other side arrive first, as far as its receive window takes them; the rest of both directions is lost when it arrives.
  push_ev(std::max(c.last_at[1 - from], g_now + lat()), 3, c.id, 1 - from);
}
void rst_arrive(Conn& c, int side)
{
  if (c.dead[side]) return;
  if (c.open[side]) try_deliver(c, side); // data transmitted before the reset is still readable (Linux keeps the receive queue)
  c.dead[side] = true;
  if (c.open[side])
  {
    c.err[side] = ECONNRESET;
    c.to[side].flight.clear();
    c.to[side].flight_bytes = 0;
    c.to[1 - side].flight.clear();
    c.to[1 - side].flight_bytes = 0;
    activity(c.fd[side], EPOLLIN | EPOLLOUT | EPOLLERR | EPOLLHUP | EPOLLRDHUP);
  }
}
Fd* find_listener(uint32_t ip, int port, int* fdout)
{
  for (size_t i = 0; i < fds.size(); i++)
  {
    Fd* f = fds[i].get();
    if (!f || f->k != K_LISTEN) continue;
    if (ntohs(f->local.sin_port) != port) continue;
    if (f->local.sin_addr.s_addr != htonl(INADDR_ANY) && f->local.sin_addr.s_addr != ip) continue;
    *fdout = FDBASE + (int)i;
    return f;
  }
  return nullptr;
}
void connect_done(int fd, uint32_t gen)
{
  if (!isfd(fd) || fdgen[fd - FDBASE] != gen) return;
  Fd* f = F(fd);
  if (f->k != K_TCP || f->ts != T_SYN_SENT) return;
  int lfd = -1;
  Fd* l = find_listener(f->remote.sin_addr.s_addr, ntohs(f->remote.sin_port), &lfd);
  if (!l || (int)l->acceptq.size() >= std::max(1, l->backlog))
  {
    f->ts = T_CLOSED;
    f->soerr = ECONNREFUSED;
    count("net.refused", 1);
    activity(fd, EPOLLIN | EPOLLOUT | EPOLLERR | EPOLLHUP);
    return;
  }
  std::unique_ptr<Conn> c(new Conn());
  c->id = (int)conns.size();
  c->fd[0] = fd;
  c->fd[1] = -1;
  c->sndcap[0] = c->sndcap[1] = ncfg.sndbuf ? ncfg.sndbuf : 1;
  c->rcvcap[0] = c->rcvcap[1] = ncfg.rcvbuf ? ncfg.rcvbuf : 1;
  c->addr[0] = f->local;
  c->addr[1] = f->remote;
  f->ts = T_EST;
  f->conn = c->id;
  f->side = 0;
  l->acceptq.push_back(c->id);
  conns.push_back(std::move(c));
  count("net.established", 1);
  activity(fd, EPOLLOUT);
  activity(lfd, EPOLLIN);
}
void udp_arrive(int idx);

uint64_t net_next()
{
  uint64_t best = evq.empty() ? UINT64_MAX : evq.top().at;
  for (auto& f : fds)
    if (f && f->k == K_TIMER && f->expiry < best) best = f->expiry;
  return best;
}
void net_fire()
{
  for (size_t i = 0; i < fds.size(); i++)
  {
    Fd* f = fds[i].get();
    if (!f || f->k != K_TIMER) continue;
    bool fired = false;
    while (f->expiry <= g_now)
    {
      f->counter++;
      fired = true;
      if (f->interval) f->expiry += f->interval;
      else f->expiry = UINT64_MAX;
    }
    if (fired) activity(FDBASE + (int)i, EPOLLIN);
  }
  while (!evq.empty() && evq.top().at <= g_now)
  {
    Ev e = evq.top();
    evq.pop();
    switch (e.kind)
    {
    case 0: try_deliver(*conns[e.a], e.b); break;
    case 1: connect_done(e.a, (uint32_t)e.b); break;
    case 2: udp_arrive(e.a); break;
    case 3: rst_arrive(*conns[e.a], e.b); break;
    case 4:
      if (isfd(e.a) && fdgen[e.a - FDBASE] == (uint32_t)e.b)
      {
        Fd* f = F(e.a);
        if (f->k == K_TCP && f->conn >= 0 && tcp_writable(*conns[f->conn], f->side))
        {
          conns[f->conn]->nospace[f->side] = false;
          activity(e.a, EPOLLOUT);
        }
      }
      break;
    }
  }
}

// ------------------------------------------------------------------ blocking helper
// returns false on timeout
bool wait_fd(uint64_t until, uint32_t tag) { return !block(B_FD, nullptr, until, tag); }

ssize_t tcp_send(int fd, Fd* f, const void* b, size_t n, int flags)
{
  point(0x905);
  bool nb = f->nonblock || (flags & MSG_DONTWAIT);
  if (f->ts == T_SYN_SENT) { errno = nb ? EAGAIN : ENOTCONN; return -1; }
  if (f->ts != T_EST || f->conn < 0)
  {
    if (f->soerr) { errno = f->soerr; f->soerr = 0; return -1; }
    errno = f->ts == T_NEW ? ENOTCONN : EPIPE;
    return -1;
  }
  Conn& c = *conns[f->conn];
  int s = f->side;
  size_t done = 0;
  uint64_t until = f->sndtimeo ? g_now + f->sndtimeo : UINT64_MAX;
  for (;;)
  {
    if (c.err[s]) { if (done) return (ssize_t)done; errno = c.err[s]; c.err[s] = 0; return -1; }
    if (c.dead[s] || c.shut_wr[s]) { if (done) return (ssize_t)done; errno = EPIPE; return -1; }
    size_t room = tcp_room(c, s);
    if (room == 0)
    {
      c.nospace[s] = true;
      if (nb)
      {
        if (done) return (ssize_t)done;
        count("net.eagain_send", 1);
        errno = EAGAIN;
        return -1;
      }
      if (!wait_fd(until, 0x915)) { if (done) return (ssize_t)done; errno = EAGAIN; return -1; }
      f = F(fd);
      if (!f) { errno = EBADF; return -1; }
      continue;
    }
    size_t k = std::min(room, n - done);
    if (nb && k > 1 && ncfg.short_write_permille && raw_draw(sim::F, 1000) >= 1000 - (uint64_t)ncfg.short_write_permille)
    {
      // the socket buffer was momentarily smaller (memory pressure): a partial write, and - as the kernel does after
      // any out-of-space condition - a writability edge follows
      k = 1 + raw_draw(sim::F, k - 1);
      count("net.short_write_injected", 1);
      c.nospace[s] = true;
      push_ev(g_now + lat(), 4, fd, (int)fdgen[fd - FDBASE]);
    }
    queue_bytes(c, s, (const char*)b + done, k);
    done += k;
    if (done < n) { c.nospace[s] = true; if (nb) count("net.short_write", 1); }
    if (nb || done == n) return (ssize_t)done;
  }
}
ssize_t tcp_recv(int fd, Fd* f, void* b, size_t n, int flags)
{
  point(0x906);
  bool nb = f->nonblock || (flags & MSG_DONTWAIT);
  if (f->ts == T_SYN_SENT) { errno = nb ? EAGAIN : ENOTCONN; return -1; }
  if (f->ts != T_EST || f->conn < 0)
  {
    if (f->soerr) { errno = f->soerr; f->soerr = 0; return -1; }
    errno = ENOTCONN;
    return -1;
  }
  uint64_t until = f->rcvtimeo ? g_now + f->rcvtimeo : UINT64_MAX;
  for (;;)
  {
    Conn& c = *conns[f->conn];
    int s = f->side;
    Pipe& p = c.to[s];
    if (p.avail() > 0)
    {
      size_t k = std::min(n, p.avail());
      if (k > 1 && ncfg.short_read_permille && raw_draw(sim::F, 1000) >= 1000 - (uint64_t)ncfg.short_read_permille)
      {
        k = 1 + raw_draw(sim::F, k - 1);
        count("net.short_read", 1);
      }
      memcpy(b, p.rcv.data() + p.rcv_off, k);
      if (!(flags & MSG_PEEK))
      {
        p.rcv_off += k;
        if (p.rcv_off == p.rcv.size()) { p.rcv.clear(); p.rcv_off = 0; }
        try_deliver(c, s); // window opened
      }
      return (ssize_t)k;
    }
    if (c.err[s]) { errno = c.err[s]; c.err[s] = 0; return -1; }
    if (p.eof || c.dead[s]) return 0;
    if (nb) { count("net.eagain_recv", 1); errno = EAGAIN; return -1; }
    if (!wait_fd(until, 0x916)) { errno = EAGAIN; return -1; }
    f = F(fd);
    if (!f) { errno = EBADF; return -1; }
  }
}

// ------------------------------------------------------------------ UDP machinery
int find_udp_dest(const sockaddr_in& src, const sockaddr_in& dst)
{
  int best = -1, bestScore = -1;
  for (size_t i = 0; i < fds.size(); i++)
  {
    Fd* f = fds[i].get();
    if (!f || f->k != K_UDP || !f->bound) continue;
    if (f->local.sin_port != dst.sin_port) continue;
    int score = 0;
    if (f->local.sin_addr.s_addr != htonl(INADDR_ANY))
    {
      if (f->local.sin_addr.s_addr != dst.sin_addr.s_addr) continue;
      score += 4;
    }
    if (f->connected_udp)
    {
      if (f->remote.sin_port != src.sin_port || f->remote.sin_addr.s_addr != src.sin_addr.s_addr) continue;
      score += 8;
    }
    if (score > bestScore) { bestScore = score; best = FDBASE + (int)i; }
  }
  return best;
}
void udp_arrive(int idx)
{
  UdpFlight& u = udp_flights[idx];
  // sender budget released
  if (u.counted && isfd(u.from_fd) && fdgen[u.from_fd - FDBASE] == u.from_gen)
  {
    Fd* sf = F(u.from_fd);
    if (sf->inflight) sf->inflight--;
    u.counted = false;
    if (sf->nospace) { sf->nospace = false; activity(u.from_fd, EPOLLOUT); }
  }
  int d = find_udp_dest(u.src, u.dst);
  if (d < 0)
  {
    count("net.udp_unreachable", 1);
    // ICMP port unreachable reaches a connected sender
    if (isfd(u.from_fd) && fdgen[u.from_fd - FDBASE] == u.from_gen)
    {
      Fd* sf = F(u.from_fd);
      if (sf->connected_udp) { sf->soerr = ECONNREFUSED; activity(u.from_fd, EPOLLERR); }
    }
    std::string().swap(u.data);
    return;
  }
  Fd* df = F(d);
  if (df->dq.size() >= ncfg.udp_rcv_datagrams)
  {
    count("net.udp_rcv_overflow", 1);
    std::string().swap(u.data);
    return;
  }
  UdpMsg m;
  m.src = u.src;
  m.data = u.data;
  df->dq.push_back(std::move(m));
  activity(d, EPOLLIN);
}
ssize_t udp_send(int fd, Fd* f, const void* b, size_t n, int flags, const sockaddr_in* to)
{
  point(0x920);
  (void)flags;
  if (f->soerr) { errno = f->soerr; f->soerr = 0; return -1; }
  sockaddr_in dst;
  if (to) dst = *to;
  else if (f->connected_udp) dst = f->remote;
  else { errno = EDESTADDRREQ; return -1; }
  if (n > 65507) { errno = EMSGSIZE; return -1; }
  if (!f->bound)
  {
    f->local.sin_family = AF_INET;
    if (f->local.sin_addr.s_addr == 0) f->local.sin_addr.s_addr = htonl(INADDR_ANY);
    f->local.sin_port = htons(next_port++);
    f->bound = true;
  }
  if (ncfg.udp_snd_budget && f->inflight >= ncfg.udp_snd_budget)
  {
    f->nospace = true;
    count("net.udp_eagain", 1);
    errno = EAGAIN;
    return -1;
  }
  sockaddr_in src = f->local;
  if (src.sin_addr.s_addr == htonl(INADDR_ANY)) src.sin_addr.s_addr = htonl(INADDR_LOOPBACK);
  sim::net::Dgram rec;
  rec.from_fd = fd;
  rec.src = addr_str(src);
  rec.dst = addr_str(dst);
  rec.payload.assign((const char*)b, n);
  rec.stamp = sim::stamp();
  rec.dropped = false;
  bool drop = ncfg.udp_drop_permille && raw_draw(sim::F, 1000) >= 1000 - (uint64_t)ncfg.udp_drop_permille;
  bool dup = !drop && ncfg.udp_dup_permille && raw_draw(sim::F, 1000) >= 1000 - (uint64_t)ncfg.udp_dup_permille;
  bool reo = ncfg.udp_reorder_permille && raw_draw(sim::F, 1000) >= 1000 - (uint64_t)ncfg.udp_reorder_permille;
  rec.dropped = drop;
  udp_log.push_back(rec);
  if (drop) { count("net.udp_drop", 1); return (ssize_t)n; }
  int copies = dup ? 2 : 1;
  if (dup) count("net.udp_dup", 1);
  if (reo) count("net.udp_reorder", 1);
  for (int i = 0; i < copies; i++)
  {
    UdpFlight u;
    u.src = src;
    u.dst = dst;
    u.data.assign((const char*)b, n);
    u.from_fd = fd;
    u.from_gen = fdgen[fd - FDBASE];
    u.counted = (i == 0);
    if (i == 0) f->inflight++;
    uint64_t at = g_now + lat() + (reo ? ncfg.latency_ns * (2 + raw_draw(sim::F, 8)) : 0) + (uint64_t)i * (1 + raw_draw(sim::F, ncfg.latency_ns + 1));
    udp_flights.push_back(std::move(u));
    push_ev(at, 2, (int)udp_flights.size() - 1, 0);
  }
  return (ssize_t)n;
}
ssize_t udp_recv(int fd, Fd* f, void* b, size_t n, int flags, sockaddr* from, socklen_t* fl)
{
  point(0x921);
  bool nb = f->nonblock || (flags & MSG_DONTWAIT);
  uint64_t until = f->rcvtimeo ? g_now + f->rcvtimeo : UINT64_MAX;
  for (;;)
  {
    if (f->soerr) { errno = f->soerr; f->soerr = 0; return -1; }
    if (!f->dq.empty())
    {
      UdpMsg& m = f->dq.front();
      size_t k = std::min(n, m.data.size());
      memcpy(b, m.data.data(), k);
      size_t full = m.data.size();
      if (from && fl)
      {
        socklen_t l = std::min<socklen_t>(*fl, sizeof(sockaddr_in));
        memcpy(from, &m.src, l);
        *fl = sizeof(sockaddr_in);
      }
      if (k < full) count("net.udp_truncated", 1);
      if (!(flags & MSG_PEEK)) f->dq.pop_front();
      return (ssize_t)((flags & MSG_TRUNC) ? full : k);
    }
    if (nb) { errno = EAGAIN; return -1; }
    if (!wait_fd(until, 0x922)) { errno = EAGAIN; return -1; }
    f = F(fd);
    if (!f) { errno = EBADF; return -1; }
  }
}

void epoll_unwatch(int fd)
{
  Fd* f = F(fd);
  if (!f) return;
  for (int ep : f->watchers)
  {
    Fd* e = F(ep);
    if (e) e->regs.erase(fd);
  }
  f->watchers.clear();
}

int do_close(int fd, bool abortive)
{
  Fd* f = F(fd);
  if (!f) { errno = EBADF; return -1; }
  epoll_unwatch(fd);
  if (f->k == K_EPOLL)
  {
    for (auto& kv : f->regs)
    {
      Fd* t = F(kv.first);
      if (t) t->watchers.erase(std::remove(t->watchers.begin(), t->watchers.end(), fd), t->watchers.end());
    }
  }
  if (f->k == K_LISTEN)
  {
    for (int cid : f->acceptq)
    {
      Conn& c = *conns[cid];
      c.open[1] = false;
      send_rst(c, 1);
    }
  }
  if (f->k == K_TCP && f->conn >= 0)
  {
    Conn& c = *conns[f->conn];
    int s = f->side;
    c.open[s] = false;
    c.fd[s] = -1;
    if (!c.dead[s])
    {
      if (abortive || f->linger0 || c.to[s].avail() > 0)
      {
        if (c.to[s].avail() > 0) count("net.close_with_unread_rst", 1);
        send_rst(c, s);
      }
      else
      {
        queue_fin(c, s);
        c.shut_wr[s] = true;
      }
    }
    // unread and in-flight data towards the closed side is discarded when it arrives (see try_deliver)
    c.to[s].rcv.clear();
    c.to[s].rcv_off = 0;
  }
  f->k = K_FREE;
  fds[fd - FDBASE].reset();
  wake_fd_waiters();
  return 0;
}

uint32_t poll_mask_to_epoll(short ev)
{
  uint32_t m = 0;
  if (ev & POLLIN) m |= EPOLLIN;
  if (ev & POLLOUT) m |= EPOLLOUT;
  if (ev & POLLRDHUP) m |= EPOLLRDHUP;
  if (ev & POLLPRI) m |= EPOLLPRI;
  return m;
}
} // namespace

namespace simint
{
void net_reset()
{
  fds.clear();
  fdgen.clear();
  conns.clear();
  while (!evq.empty()) evq.pop();
  hosts.clear();
  blackholes.clear();
  connect_delays.clear();
  udp_flights.clear();
  udp_log.clear();
  ncfg = sim::net::NetConfig();
  resolve_delay = refuse_delay = 0;
  next_port = 40000;
  if (!registered)
  {
    add_time_source(net_next, net_fire);
    registered = true;
  }
}
} // namespace simint

namespace sim
{
namespace net
{
void configure(const NetConfig& c) { ncfg = c; }
NetConfig& config() { return ncfg; }
void add_host(const char* name, const char* ip) { hosts[name] = ip; }
void set_resolve_delay(uint64_t ns) { resolve_delay = ns; }
void set_refuse_delay(uint64_t ns) { refuse_delay = ns; }
void set_connect_delay(const char* ip, int port, uint64_t ns)
{
  in_addr a;
  inet_pton(AF_INET, ip, &a);
  connect_delays[{a.s_addr, port}] = ns;
}
void set_blackhole(const char* ip, int port, bool onoff)
{
  in_addr a;
  inet_pton(AF_INET, ip, &a);
  if (onoff) blackholes.insert({a.s_addr, port});
  else blackholes.erase({a.s_addr, port});
}
std::vector<ConnInfo> connections()
{
  std::vector<ConnInfo> v;
  for (auto& c : conns)
  {
    ConnInfo i;
    i.id = c->id;
    i.fd_a = c->fd[0];
    i.fd_b = c->fd[1];
    i.a_addr = addr_str(c->addr[0]);
    i.b_addr = addr_str(c->addr[1]);
    i.a_sent = c->sent[0];
    i.b_sent = c->sent[1];
    i.a_closed = !c->open[0];
    i.b_closed = !c->open[1];
    v.push_back(std::move(i));
  }
  return v;
}
size_t established_count()
{
  size_t n = 0;
  for (auto& c : conns)
    if (c->open[0] && c->open[1] && !c->dead[0] && !c->dead[1]) n++;
  return n;
}
uint64_t fault_count(const char* name) { return counter(name); }
const std::vector<Dgram>& udp_sent() { return udp_log; }
bool is_sim_fd(int fd) { return isfd(fd); }
void abort_close(int fd)
{
  if (!on()) return;
  point(0x9f0);
  do_close(fd, true);
}
int wait_readable(int fd, uint64_t timeout_ns)
{
  uint64_t until = timeout_ns == UINT64_MAX ? UINT64_MAX : g_now + timeout_ns;
  point(0x9f1);
  for (;;)
  {
    if (!isfd(fd)) return 1;
    if (readiness(fd) & (EPOLLIN | EPOLLERR | EPOLLHUP | EPOLLRDHUP)) return 1;
    if (g_now >= until) return 0;
    if (!wait_fd(until, 0x9f2)) return 0;
  }
}
} // namespace net
} // namespace sim

// ==================================================================== interposed symbols
extern "C"
{
int eventfd(unsigned init, int flags)
{
  simint::TsanIgn _tsan_ign;
  SIM_REAL(int, eventfd, unsigned, int);
  if (!on()) return real(init, flags);
  point(0x800);
  int fd = alloc_fd(K_EVENT);
  Fd* f = F(fd);
  f->counter = init;
  f->nonblock = flags & EFD_NONBLOCK;
  f->sema = flags & EFD_SEMAPHORE;
  return fd;
}
int timerfd_create(int clk, int flags)
{
  simint::TsanIgn _tsan_ign;
  SIM_REAL(int, timerfd_create, int, int);
  if (!on()) return real(clk, flags);
  point(0x801);
  int fd = alloc_fd(K_TIMER);
  Fd* f = F(fd);
  f->clock = clk;
  f->nonblock = flags & TFD_NONBLOCK;
  return fd;
}
int timerfd_settime(int fd, int flags, const itimerspec* n, itimerspec* o)
{
  simint::TsanIgn _tsan_ign;
  SIM_REAL(int, timerfd_settime, int, int, const itimerspec*, itimerspec*);
  if (!isfd(fd)) return real(fd, flags, n, o);
  point(0x802);
  Fd* f = F(fd);
  if (f->k != K_TIMER) { errno = EINVAL; return -1; }
  if (o)
  {
    uint64_t rem = f->expiry == UINT64_MAX ? 0 : (f->expiry > g_now ? f->expiry - g_now : 1);
    o->it_value.tv_sec = rem / 1000000000ull;
    o->it_value.tv_nsec = rem % 1000000000ull;
    o->it_interval.tv_sec = f->interval / 1000000000ull;
    o->it_interval.tv_nsec = f->interval % 1000000000ull;
  }
  uint64_t v = (uint64_t)n->it_value.tv_sec * 1000000000ull + (uint64_t)n->it_value.tv_nsec;
  f->interval = (uint64_t)n->it_interval.tv_sec * 1000000000ull + (uint64_t)n->it_interval.tv_nsec;
  if (v == 0) f->expiry = UINT64_MAX;
  else if (flags & TFD_TIMER_ABSTIME)
  {
    if (f->clock == CLOCK_REALTIME)
    {
      uint64_t wall = sim::wall_ms() * 1000000ull; // approximate base
      f->expiry = v > wall ? g_now + (v - wall) : g_now;
    }
    else f->expiry = v;
  }
  else f->expiry = g_now + v;
  f->counter = 0;
  if (f->expiry <= g_now) net_fire();
  return 0;
}
int timerfd_gettime(int fd, itimerspec* o)
{
  simint::TsanIgn _tsan_ign;
  SIM_REAL(int, timerfd_gettime, int, itimerspec*);
  if (!isfd(fd)) return real(fd, o);
  Fd* f = F(fd);
  uint64_t rem = f->expiry == UINT64_MAX ? 0 : (f->expiry > g_now ? f->expiry - g_now : 1);
  o->it_value.tv_sec = rem / 1000000000ull;
  o->it_value.tv_nsec = rem % 1000000000ull;
  o->it_interval.tv_sec = f->interval / 1000000000ull;
  o->it_interval.tv_nsec = f->interval % 1000000000ull;
  return 0;
}
int epoll_create1(int flags)
{
  simint::TsanIgn _tsan_ign;
  SIM_REAL(int, epoll_create1, int);
  if (!on()) return real(flags);
  point(0x810);
  return alloc_fd(K_EPOLL);
}
int epoll_create(int sz)
{
  simint::TsanIgn _tsan_ign;
  SIM_REAL(int, epoll_create, int);
  if (!on()) return real(sz);
  point(0x810);
  return alloc_fd(K_EPOLL);
}
int epoll_ctl(int ep, int op, int fd, epoll_event* ev)
{
  simint::TsanIgn _tsan_ign;
  SIM_REAL(int, epoll_ctl, int, int, int, epoll_event*);
  if (!isfd(ep)) return real(ep, op, fd, ev);
  point(0x811);
  Fd* e = F(ep);
  if (!e || e->k != K_EPOLL) { errno = EINVAL; return -1; }
  Fd* t = F(fd);
  if (!t) { errno = EBADF; return -1; }
  auto it = e->regs.find(fd);
  if (op == EPOLL_CTL_DEL)
  {
    if (it == e->regs.end()) { errno = ENOENT; return -1; }
    e->regs.erase(it);
    t->watchers.erase(std::remove(t->watchers.begin(), t->watchers.end(), ep), t->watchers.end());
    return 0;
  }
  if (op == EPOLL_CTL_ADD)
  {
    if (it != e->regs.end()) { errno = EEXIST; return -1; }
    Reg r;
    r.ev = ev->events;
    r.data = ev->data.u64;
    r.queued = (readiness(fd) & (r.ev | EPOLLERR | EPOLLHUP)) != 0;
    e->regs[fd] = r;
    t->watchers.push_back(ep);
    if (r.queued) wake_fd_waiters();
    return 0;
  }
  if (op == EPOLL_CTL_MOD)
  {
    if (it == e->regs.end()) { errno = ENOENT; return -1; }
    it->second.ev = ev->events;
    it->second.data = ev->data.u64;
    // ep_modify re-polls the file and queues the item when it is ready, also under EPOLLET
    if (readiness(fd) & (it->second.ev | EPOLLERR | EPOLLHUP)) { it->second.queued = true; wake_fd_waiters(); }
    // tcp_poll marks the socket as "somebody waits for space" when it is not writable
    if (t->k == K_TCP && t->conn >= 0 && (ev->events & EPOLLOUT) && !(readiness(fd) & EPOLLOUT)) conns[t->conn]->nospace[t->side] = true;
    return 0;
  }
  errno = EINVAL;
  return -1;
}
int epoll_wait(int ep, epoll_event* out, int maxev, int timeout)
{
  simint::TsanIgn _tsan_ign;
  SIM_REAL(int, epoll_wait, int, epoll_event*, int, int);
  if (!isfd(ep)) return real(ep, out, maxev, timeout);
  point(0x812);
  uint64_t until = timeout < 0 ? UINT64_MAX : g_now + (uint64_t)timeout * 1000000ull;
  bool eintr_done = false;
  for (;;)
  {
    Fd* e = F(ep);
    if (!e || e->k != K_EPOLL) { errno = EBADF; return -1; }
    std::vector<std::pair<int, uint32_t>> ready;
    for (auto& kv : e->regs)
    {
      Reg& r = kv.second;
      bool et = r.ev & EPOLLET;
      uint32_t m = readiness(kv.first) & (r.ev | EPOLLERR | EPOLLHUP);
      if (et)
      {
        if (!r.queued) continue;
        if (!m) { r.queued = false; continue; }
      }
      else
      {
        if (!m) { r.queued = false; continue; }
        // a socket that is polled and found unwritable is remembered as wanting space
        Fd* t = F(kv.first);
        if (t && t->k == K_TCP && t->conn >= 0 && (r.ev & EPOLLOUT) && !(m & EPOLLOUT)) conns[t->conn]->nospace[t->side] = true;
      }
      ready.emplace_back(kv.first, m);
    }
    if (!ready.empty())
    {
      if (ncfg.epoll_shuffle && ready.size() > 1)
        for (size_t i = ready.size() - 1; i > 0; i--) std::swap(ready[i], ready[raw_draw(sim::F, i + 1)]);
      size_t lim = std::min<size_t>(ready.size(), (size_t)maxev);
      if (lim > 1 && ncfg.epoll_truncate_permille && raw_draw(sim::F, 1000) >= 1000 - (uint64_t)ncfg.epoll_truncate_permille)
      {
        lim = 1 + raw_draw(sim::F, lim - 1);
        count("net.epoll_truncated", 1);
      }
      for (size_t i = 0; i < lim; i++)
      {
        Reg& r = e->regs[ready[i].first];
        out[i].events = ready[i].second;
        out[i].data.u64 = r.data;
        if (r.ev & EPOLLET) r.queued = false;
        if (r.ev & EPOLLONESHOT) r.ev &= ~(EPOLLIN | EPOLLOUT | EPOLLRDHUP | EPOLLPRI);
      }
      return (int)lim;
    }
    if (timeout == 0 || g_now >= until) return 0;
    if (ncfg.eintr_ppm && !eintr_done && raw_draw(sim::F, 1000000) >= 1000000 - (uint64_t)ncfg.eintr_ppm)
    {
      eintr_done = true;
      count("net.eintr", 1);
      errno = EINTR;
      return -1;
    }
    if (!wait_fd(until, 0x813)) return 0;
  }
}
int epoll_pwait(int ep, epoll_event* out, int maxev, int timeout, const sigset_t* ss)
{
  simint::TsanIgn _tsan_ign;
  SIM_REAL(int, epoll_pwait, int, epoll_event*, int, int, const sigset_t*);
  if (!isfd(ep)) return real(ep, out, maxev, timeout, ss);
  return epoll_wait(ep, out, maxev, timeout);
}

int socket(int dom, int type, int proto)
{
  simint::TsanIgn _tsan_ign;
  SIM_REAL(int, socket, int, int, int);
  if (!on()) return real(dom, type, proto);
  int base = type & 0xf;
  if (dom == AF_INET6) { errno = EAFNOSUPPORT; return -1; }
  if (dom != AF_INET || (base != SOCK_STREAM && base != SOCK_DGRAM)) return real(dom, type, proto);
  point(0x900);
  int fd = alloc_fd(base == SOCK_STREAM ? K_TCP : K_UDP);
  Fd* f = F(fd);
  f->nonblock = type & SOCK_NONBLOCK;
  f->local.sin_family = AF_INET;
  f->remote.sin_family = AF_INET;
  return fd;
}
int bind(int fd, const sockaddr* a, socklen_t l)
{
  simint::TsanIgn _tsan_ign;
  SIM_REAL(int, bind, int, const sockaddr*, socklen_t);
  if (!isfd(fd)) return real(fd, a, l);
  point(0x901);
  Fd* f = F(fd);
  if (a->sa_family != AF_INET) { errno = EAFNOSUPPORT; return -1; }
  sockaddr_in in = *(const sockaddr_in*)a;
  if (in.sin_port == 0) in.sin_port = htons(next_port++);
  // address in use?
  for (size_t i = 0; i < fds.size(); i++)
  {
    Fd* o = fds[i].get();
    if (!o || o == f || !o->bound) continue;
    if ((o->k == K_LISTEN || o->k == K_TCP) != (f->k == K_TCP)) continue;
    if (f->k == K_TCP && o->k == K_TCP && o->ts != T_NEW) continue; // connected sockets share the listener port
    if (o->local.sin_port != in.sin_port) continue;
    bool overlap = o->local.sin_addr.s_addr == in.sin_addr.s_addr || o->local.sin_addr.s_addr == htonl(INADDR_ANY) ||
                   in.sin_addr.s_addr == htonl(INADDR_ANY);
    if (overlap && !(o->reuseport && f->reuseport)) { errno = EADDRINUSE; return -1; }
  }
  f->local = in;
  f->bound = true;
  return 0;
}
int listen(int fd, int bl)
{
  simint::TsanIgn _tsan_ign;
  SIM_REAL(int, listen, int, int);
  if (!isfd(fd)) return real(fd, bl);
  point(0x902);
  Fd* f = F(fd);
  if (f->k != K_TCP && f->k != K_LISTEN) { errno = EOPNOTSUPP; return -1; }
  if (!f->bound) { f->local.sin_port = htons(next_port++); f->bound = true; }
  f->k = K_LISTEN;
  f->backlog = bl;
  return 0;
}
int accept4(int fd, sockaddr* a, socklen_t* l, int flags)
{
  simint::TsanIgn _tsan_ign;
  SIM_REAL(int, accept4, int, sockaddr*, socklen_t*, int);
  if (!isfd(fd)) return real(fd, a, l, flags);
  point(0x903);
  uint64_t until = 0; // computed once: spurious wake-ups must not extend SO_RCVTIMEO
  for (;;)
  {
    Fd* L = F(fd);
    if (!L || L->k != K_LISTEN) { errno = EINVAL; return -1; }
    if (!L->acceptq.empty())
    {
      int cid = L->acceptq.front();
      L->acceptq.pop_front();
      Conn& c = *conns[cid];
      int nfd = alloc_fd(K_TCP);
      Fd* s = F(nfd);
      s->nonblock = flags & SOCK_NONBLOCK;
      s->ts = T_EST;
      s->conn = cid;
      s->side = 1;
      s->local = c.addr[1];
      s->remote = c.addr[0];
      s->bound = true;
      c.fd[1] = nfd;
      c.accepted = true;
      if (a && l)
      {
        socklen_t n = std::min<socklen_t>(*l, sizeof(sockaddr_in));
        memcpy(a, &s->remote, n);
        *l = sizeof(sockaddr_in);
      }
      return nfd;
    }
    if (L->nonblock) { errno = EAGAIN; return -1; }
    if (!until) until = L->rcvtimeo ? g_now + L->rcvtimeo : UINT64_MAX;
    if (!wait_fd(until, 0x913)) { errno = EAGAIN; return -1; }
  }
}
int accept(int fd, sockaddr* a, socklen_t* l)
{
  simint::TsanIgn _tsan_ign;
  SIM_REAL(int, accept, int, sockaddr*, socklen_t*);
  if (!isfd(fd)) return real(fd, a, l);
  return accept4(fd, a, l, 0);
}
int connect(int fd, const sockaddr* a, socklen_t l)
{
  simint::TsanIgn _tsan_ign;
  SIM_REAL(int, connect, int, const sockaddr*, socklen_t);
  if (!isfd(fd)) return real(fd, a, l);
  point(0x904);
  Fd* f = F(fd);
  if (a->sa_family != AF_INET) { errno = EAFNOSUPPORT; return -1; }
  const sockaddr_in* in = (const sockaddr_in*)a;
  if (f->k == K_UDP)
  {
    f->remote = *in;
    f->connected_udp = true;
    if (!f->bound)
    {
      f->local.sin_port = htons(next_port++);
      f->bound = true;
    }
    if (f->local.sin_addr.s_addr == htonl(INADDR_ANY)) f->local.sin_addr.s_addr = htonl(INADDR_LOOPBACK);
    return 0;
  }
  if (f->k != K_TCP) { errno = EINVAL; return -1; }
  if (f->ts == T_SYN_SENT) { errno = EALREADY; return -1; }
  if (f->ts == T_EST) { errno = EISCONN; return -1; }
  f->remote = *in;
  if (!f->bound) { f->local.sin_port = htons(next_port++); f->bound = true; }
  if (f->local.sin_addr.s_addr == htonl(INADDR_ANY)) f->local.sin_addr.s_addr = htonl(INADDR_LOOPBACK);
  f->ts = T_SYN_SENT;
  bool bh = blackholes.count({in->sin_addr.s_addr, (int)ntohs(in->sin_port)}) != 0;
  if (bh) count("net.blackholed", 1);
  bool hasDelay = connect_delays.count({in->sin_addr.s_addr, (int)ntohs(in->sin_port)}) || connect_delays.count({in->sin_addr.s_addr, 0});
  bool immediate = !bh && !hasDelay && ncfg.connect_immediate_permille && raw_draw(sim::F, 1000) >= 1000 - (uint64_t)ncfg.connect_immediate_permille;
  if (immediate)
  {
    count("net.connect_immediate", 1);
    connect_done(fd, fdgen[fd - FDBASE]);
    f = F(fd);
    if (f->ts == T_EST) return 0;
    errno = f->soerr; // refused at once
    f->soerr = 0;
    return -1;
  }
  if (!bh)
  {
    uint64_t d = ncfg.connect_delay_ns + (ncfg.jitter_ns ? raw_draw(sim::F, ncfg.jitter_ns + 1) : 0);
    {
      auto it = connect_delays.find({in->sin_addr.s_addr, (int)ntohs(in->sin_port)});
      if (it == connect_delays.end()) it = connect_delays.find({in->sin_addr.s_addr, 0});
      if (it != connect_delays.end()) d = it->second;
    }
    push_ev(g_now + d, 1, fd, (int)fdgen[fd - FDBASE]);
  }
  if (f->nonblock) { errno = EINPROGRESS; return -1; }
  uint64_t until = f->sndtimeo ? g_now + f->sndtimeo : UINT64_MAX;
  for (;;)
  {
    f = F(fd);
    if (!f) { errno = EBADF; return -1; }
    if (f->ts == T_EST) return 0;
    if (f->ts == T_CLOSED) { errno = f->soerr ? f->soerr : ECONNREFUSED; f->soerr = 0; return -1; }
    if (!wait_fd(until, 0x914)) { errno = ETIMEDOUT; return -1; }
  }
}
ssize_t send(int fd, const void* b, size_t n, int fl)
{
  simint::TsanIgn _tsan_ign;
  SIM_REAL(ssize_t, send, int, const void*, size_t, int);
  if (!isfd(fd)) return real(fd, b, n, fl);
  Fd* f = F(fd);
  if (f->k == K_TCP) return tcp_send(fd, f, b, n, fl);
  if (f->k == K_UDP) return udp_send(fd, f, b, n, fl, nullptr);
  errno = ENOTSOCK;
  return -1;
}
ssize_t sendto(int fd, const void* b, size_t n, int fl, const sockaddr* to, socklen_t tl)
{
  simint::TsanIgn _tsan_ign;
  SIM_REAL(ssize_t, sendto, int, const void*, size_t, int, const sockaddr*, socklen_t);
  if (!isfd(fd)) return real(fd, b, n, fl, to, tl);
  Fd* f = F(fd);
  if (f->k == K_TCP) return tcp_send(fd, f, b, n, fl);
  if (f->k == K_UDP)
  {
    if (to && to->sa_family != AF_INET) { errno = EAFNOSUPPORT; return -1; }
    return udp_send(fd, f, b, n, fl, (const sockaddr_in*)to);
  }
  errno = ENOTSOCK;
  return -1;
}
ssize_t recv(int fd, void* b, size_t n, int fl)
{
  simint::TsanIgn _tsan_ign;
  SIM_REAL(ssize_t, recv, int, void*, size_t, int);
  if (!isfd(fd)) return real(fd, b, n, fl);
  Fd* f = F(fd);
  if (f->k == K_TCP) return tcp_recv(fd, f, b, n, fl);
  if (f->k == K_UDP) return udp_recv(fd, f, b, n, fl, nullptr, nullptr);
  errno = ENOTSOCK;
  return -1;
}
ssize_t recvfrom(int fd, void* b, size_t n, int fl, sockaddr* from, socklen_t* l)
{
  simint::TsanIgn _tsan_ign;
  SIM_REAL(ssize_t, recvfrom, int, void*, size_t, int, sockaddr*, socklen_t*);
  if (!isfd(fd)) return real(fd, b, n, fl, from, l);
  Fd* f = F(fd);
  if (f->k == K_TCP) return tcp_recv(fd, f, b, n, fl);
  if (f->k == K_UDP) return udp_recv(fd, f, b, n, fl, from, l);
  errno = ENOTSOCK;
  return -1;
}
ssize_t sendmsg(int fd, const msghdr* m, int fl)
{
  simint::TsanIgn _tsan_ign;
  SIM_REAL(ssize_t, sendmsg, int, const msghdr*, int);
  if (!isfd(fd)) return real(fd, m, fl);
  std::string buf;
  for (size_t i = 0; i < (size_t)m->msg_iovlen; i++) buf.append((const char*)m->msg_iov[i].iov_base, m->msg_iov[i].iov_len);
  return sendto(fd, buf.data(), buf.size(), fl, (const sockaddr*)m->msg_name, m->msg_namelen);
}
ssize_t recvmsg(int fd, msghdr* m, int fl)
{
  simint::TsanIgn _tsan_ign;
  SIM_REAL(ssize_t, recvmsg, int, msghdr*, int);
  if (!isfd(fd)) return real(fd, m, fl);
  size_t total = 0;
  for (size_t i = 0; i < (size_t)m->msg_iovlen; i++) total += m->msg_iov[i].iov_len;
  std::string buf(total, '\0');
  socklen_t nl = m->msg_namelen;
  ssize_t n = recvfrom(fd, &buf[0], total, fl, (sockaddr*)m->msg_name, m->msg_name ? &nl : nullptr);
  if (n < 0) return n;
  if (m->msg_name) m->msg_namelen = nl;
  size_t off = 0;
  for (size_t i = 0; i < (size_t)m->msg_iovlen && off < (size_t)n; i++)
  {
    size_t k = std::min(m->msg_iov[i].iov_len, (size_t)n - off);
    memcpy(m->msg_iov[i].iov_base, buf.data() + off, k);
    off += k;
  }
  m->msg_flags = 0;
  m->msg_controllen = 0;
  return n;
}
ssize_t read(int fd, void* b, size_t n)
{
  simint::TsanIgn _tsan_ign;
  SIM_REAL(ssize_t, read, int, void*, size_t);
  if (!isfd(fd)) return real(fd, b, n);
  Fd* f = F(fd);
  if (f->k == K_EVENT || f->k == K_TIMER)
  {
    point(0x907);
    if (n < 8) { errno = EINVAL; return -1; }
    for (;;)
    {
      f = F(fd);
      if (!f) { errno = EBADF; return -1; }
      if (f->counter)
      {
        uint64_t v = f->sema ? 1 : f->counter;
        f->counter -= v;
        memcpy(b, &v, 8);
        return 8;
      }
      if (f->nonblock) { errno = EAGAIN; return -1; }
      wait_fd(UINT64_MAX, 0x917);
    }
  }
  if (f->k == K_TCP) return tcp_recv(fd, f, b, n, 0);
  if (f->k == K_UDP) return udp_recv(fd, f, b, n, 0, nullptr, nullptr);
  errno = EINVAL;
  return -1;
}
ssize_t write(int fd, const void* b, size_t n)
{
  simint::TsanIgn _tsan_ign;
  SIM_REAL(ssize_t, write, int, const void*, size_t);
  if (!isfd(fd))
  {
    if (on() && fs_tracked_fd(fd))
    {
      point(0xa20);
      ssize_t w = real(fd, b, n);
      fs_on_write(fd, b, n, w);
      return w;
    }
    return real(fd, b, n);
  }
  Fd* f = F(fd);
  if (f->k == K_EVENT)
  {
    point(0x908);
    if (n < 8) { errno = EINVAL; return -1; }
    uint64_t v;
    memcpy(&v, b, 8);
    f->counter += v;
    activity(fd, EPOLLIN);
    return 8;
  }
  if (f->k == K_TCP) return tcp_send(fd, f, b, n, 0);
  if (f->k == K_UDP) return udp_send(fd, f, b, n, 0, nullptr);
  errno = EINVAL;
  return -1;
}
int close(int fd)
{
  simint::TsanIgn _tsan_ign;
  SIM_REAL(int, close, int);
  if (fd < FDBASE)
  {
    if (on() && fs_tracked_fd(fd)) fs_on_close(fd);
    return real(fd);
  }
  if (!on() && !isfd(fd)) { errno = EBADF; return -1; }
  point(0x909);
  return do_close(fd, false);
}
int shutdown(int fd, int how)
{
  simint::TsanIgn _tsan_ign;
  SIM_REAL(int, shutdown, int, int);
  if (!isfd(fd)) return real(fd, how);
  point(0x90a);
  Fd* f = F(fd);
  if (f->k != K_TCP || f->conn < 0) { if (f->k == K_UDP) return 0; errno = ENOTCONN; return -1; }
  Conn& c = *conns[f->conn];
  int s = f->side;
  if ((how == SHUT_WR || how == SHUT_RDWR) && !c.shut_wr[s] && !c.dead[s])
  {
    c.shut_wr[s] = true;
    queue_fin(c, s);
  }
  if (how == SHUT_RD || how == SHUT_RDWR)
  {
    c.to[s].eof = true;
    activity(fd, EPOLLIN | EPOLLRDHUP);
  }
  return 0;
}
int getsockopt(int fd, int lvl, int opt, void* v, socklen_t* l)
{
  simint::TsanIgn _tsan_ign;
  SIM_REAL(int, getsockopt, int, int, int, void*, socklen_t*);
  if (!isfd(fd)) return real(fd, lvl, opt, v, l);
  Fd* f = F(fd);
  int val = 0;
  if (lvl == SOL_SOCKET && opt == SO_ERROR)
  {
    point(0x90b);
    if (f->conn >= 0) { Conn& c = *conns[f->conn]; val = c.err[f->side]; c.err[f->side] = 0; }
    else { val = f->soerr; f->soerr = 0; }
  }
  else if (lvl == SOL_SOCKET && opt == SO_TYPE) val = f->k == K_UDP ? SOCK_DGRAM : SOCK_STREAM;
  else if (lvl == SOL_SOCKET && (opt == SO_SNDBUF || opt == SO_RCVBUF)) val = (int)(opt == SO_SNDBUF ? ncfg.sndbuf : ncfg.rcvbuf);
  else if (lvl == SOL_SOCKET && opt == SO_ACCEPTCONN) val = f->k == K_LISTEN;
  if (v && l && *l >= sizeof(int)) { memcpy(v, &val, sizeof(int)); *l = sizeof(int); }
  return 0;
}
int setsockopt(int fd, int lvl, int opt, const void* v, socklen_t l)
{
  simint::TsanIgn _tsan_ign;
  SIM_REAL(int, setsockopt, int, int, int, const void*, socklen_t);
  if (!isfd(fd)) return real(fd, lvl, opt, v, l);
  Fd* f = F(fd);
  if (lvl == SOL_SOCKET && opt == SO_LINGER && l >= sizeof(struct linger))
  {
    const struct linger* lg = (const struct linger*)v;
    f->linger0 = lg->l_onoff && lg->l_linger == 0;
  }
  else if (lvl == SOL_SOCKET && (opt == SO_RCVTIMEO || opt == SO_SNDTIMEO) && l >= sizeof(struct timeval))
  {
    const struct timeval* tv = (const struct timeval*)v;
    uint64_t ns = (uint64_t)tv->tv_sec * 1000000000ull + (uint64_t)tv->tv_usec * 1000ull;
    if (opt == SO_RCVTIMEO) f->rcvtimeo = ns; else f->sndtimeo = ns;
  }
  else if (lvl == SOL_SOCKET && opt == SO_REUSEPORT && l >= sizeof(int)) f->reuseport = *(const int*)v != 0;
  return 0;
}
int getsockname(int fd, sockaddr* a, socklen_t* l)
{
  simint::TsanIgn _tsan_ign;
  SIM_REAL(int, getsockname, int, sockaddr*, socklen_t*);
  if (!isfd(fd)) return real(fd, a, l);
  Fd* f = F(fd);
  socklen_t n = std::min<socklen_t>(*l, sizeof(sockaddr_in));
  memcpy(a, &f->local, n);
  *l = sizeof(sockaddr_in);
  return 0;
}
int getpeername(int fd, sockaddr* a, socklen_t* l)
{
  simint::TsanIgn _tsan_ign;
  SIM_REAL(int, getpeername, int, sockaddr*, socklen_t*);
  if (!isfd(fd)) return real(fd, a, l);
  Fd* f = F(fd);
  bool ok = (f->k == K_TCP && f->ts == T_EST && f->conn >= 0 && !conns[f->conn]->dead[f->side]) || (f->k == K_UDP && f->connected_udp);
  if (!ok) { errno = ENOTCONN; return -1; }
  socklen_t n = std::min<socklen_t>(*l, sizeof(sockaddr_in));
  memcpy(a, &f->remote, n);
  *l = sizeof(sockaddr_in);
  return 0;
}
int fcntl(int fd, int cmd, ...)
{
  simint::TsanIgn _tsan_ign;
  typedef int (*FcntlFn)(int, int, ...);
  static FcntlFn real = simint::real_fn<FcntlFn>("fcntl");
  va_list ap;
  va_start(ap, cmd);
  long arg = va_arg(ap, long);
  va_end(ap);
  if (!isfd(fd)) return real(fd, cmd, arg);
  Fd* f = F(fd);
  switch (cmd)
  {
  case F_GETFL: return O_RDWR | (f->nonblock ? O_NONBLOCK : 0);
  case F_SETFL: f->nonblock = arg & O_NONBLOCK; return 0;
  case F_GETFD: return FD_CLOEXEC;
  case F_SETFD: return 0;
  default: errno = EINVAL; return -1;
  }
}
int fcntl64(int fd, int cmd, ...)
{
  simint::TsanIgn _tsan_ign;
  typedef int (*FcntlFn)(int, int, ...);
  static FcntlFn real = simint::real_fn<FcntlFn>("fcntl64");
  va_list ap;
  va_start(ap, cmd);
  long arg = va_arg(ap, long);
  va_end(ap);
  if (!isfd(fd)) return real ? real(fd, cmd, arg) : -1;
  return fcntl(fd, cmd, arg);
}
int ioctl(int fd, unsigned long req, ...)
{
  simint::TsanIgn _tsan_ign;
  typedef int (*IoctlFn)(int, unsigned long, ...);
  static IoctlFn real = simint::real_fn<IoctlFn>("ioctl");
  va_list ap;
  va_start(ap, req);
  void* arg = va_arg(ap, void*);
  va_end(ap);
  if (!isfd(fd)) return real(fd, req, arg);
  Fd* f = F(fd);
  if (req == FIONBIO) { f->nonblock = *(int*)arg != 0; return 0; }
  if (req == FIONREAD)
  {
    int v = 0;
    if (f->k == K_TCP && f->conn >= 0) v = (int)conns[f->conn]->to[f->side].avail();
    else if (f->k == K_UDP && !f->dq.empty()) v = (int)f->dq.front().data.size();
    *(int*)arg = v;
    return 0;
  }
  errno = EINVAL;
  return -1;
}
int poll(struct pollfd* p, nfds_t n, int timeout)
{
  simint::TsanIgn _tsan_ign;
  SIM_REAL(int, poll, struct pollfd*, nfds_t, int);
  bool anysim = false;
  for (nfds_t i = 0; i < n; i++) if (isfd(p[i].fd)) anysim = true;
  if (!anysim)
  {
    if (on() && n == 0 && timeout > 0) { sim::sleep_ns((uint64_t)timeout * 1000000ull); return 0; }
    return real(p, n, timeout);
  }
  point(0x930);
  uint64_t until = timeout < 0 ? UINT64_MAX : g_now + (uint64_t)timeout * 1000000ull;
  for (;;)
  {
    int cnt = 0;
    for (nfds_t i = 0; i < n; i++)
    {
      p[i].revents = 0;
      if (!isfd(p[i].fd)) { if (p[i].fd >= FDBASE) { p[i].revents = POLLNVAL; cnt++; } continue; }
      uint32_t m = readiness(p[i].fd) & (poll_mask_to_epoll(p[i].events) | EPOLLERR | EPOLLHUP);
      short r = 0;
      if (m & EPOLLIN) r |= POLLIN;
      if (m & EPOLLOUT) r |= POLLOUT;
      if (m & EPOLLERR) r |= POLLERR;
      if (m & EPOLLHUP) r |= POLLHUP;
      if (m & EPOLLRDHUP) r |= POLLRDHUP;
      p[i].revents = r;
      if (r) cnt++;
    }
    if (cnt) return cnt;
    if (timeout == 0 || g_now >= until) return 0;
    if (!wait_fd(until, 0x931)) return 0;
  }
}

// ---------------------------------------------------------------- name resolution
int getaddrinfo(const char* node, const char* service, const addrinfo* hints, addrinfo** res)
{
  simint::TsanIgn _tsan_ign;
  SIM_REAL(int, getaddrinfo, const char*, const char*, const addrinfo*, addrinfo**);
  if (!on()) return real(node, service, hints, res);
  point(0x940);
  in_addr a;
  bool numeric = node && inet_pton(AF_INET, node, &a) == 1;
  if (!numeric)
  {
    if (node == nullptr) a.s_addr = (hints && (hints->ai_flags & AI_PASSIVE)) ? htonl(INADDR_ANY) : htonl(INADDR_LOOPBACK);
    else
    {
      in6_addr a6;
      if (inet_pton(AF_INET6, node, &a6) == 1) return EAI_ADDRFAMILY;
      if (hints && (hints->ai_flags & AI_NUMERICHOST)) return EAI_NONAME;
      if (resolve_delay) block(B_SLEEP, nullptr, g_now + resolve_delay, 0x941);
      auto it = hosts.find(node);
      if (it == hosts.end()) { count("net.resolve_fail", 1); return EAI_NONAME; }
      inet_pton(AF_INET, it->second.c_str(), &a);
      count("net.resolved", 1);
    }
  }
  if (hints && hints->ai_family == AF_INET6) return EAI_ADDRFAMILY;
  int port = service ? atoi(service) : 0;
  char* mem = (char*)calloc(1, sizeof(addrinfo) + sizeof(sockaddr_in));
  addrinfo* ai = (addrinfo*)mem;
  sockaddr_in* sa = (sockaddr_in*)(mem + sizeof(addrinfo));
  sa->sin_family = AF_INET;
  sa->sin_addr = a;
  sa->sin_port = htons((uint16_t)port);
  ai->ai_family = AF_INET;
  ai->ai_socktype = hints && hints->ai_socktype ? hints->ai_socktype : SOCK_STREAM;
  ai->ai_protocol = hints ? hints->ai_protocol : 0;
  ai->ai_addrlen = sizeof(sockaddr_in);
  ai->ai_addr = (sockaddr*)sa;
  ai->ai_flags = 0x51510000; // marks our allocation
  *res = ai;
  return 0;
}
void freeaddrinfo(addrinfo* ai)
{
  simint::TsanIgn _tsan_ign;
  SIM_REAL(void, freeaddrinfo, addrinfo*);
  if (ai && (ai->ai_flags & 0xffff0000) == 0x51510000) { free(ai); return; }
  real(ai);
}
} // extern "C"
