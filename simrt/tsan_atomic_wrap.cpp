// TSan flavour only: every compiler-instrumented std::atomic operation of the program under test is routed through these
// wrappers (-Wl,--wrap=__tsan_atomicNN_op), which add a scheduling point BEFORE the operation when the harness asked for
// instruction-level interleavings of lock-free code (sim::Config::atomic_points). Compiled without instrumentation.
#include "internal.h"
#include <cstdint>

namespace simint { bool g_atomic_points = false; }
using simint::g_atomic_points;

#define AP() do { if (g_atomic_points && simint::on()) { simint::TsanIgn _i; simint::point(0xA70); } } while (0)
typedef int mo_t;

#define WRAP_SIZE(N, T)                                                                                                                     \
  extern "C" T __real___tsan_atomic##N##_load(const volatile T*, mo_t);                                                                     \
  extern "C" T __wrap___tsan_atomic##N##_load(const volatile T* a, mo_t m) { AP(); return __real___tsan_atomic##N##_load(a, m); }          \
  extern "C" void __real___tsan_atomic##N##_store(volatile T*, T, mo_t);                                                                    \
  extern "C" void __wrap___tsan_atomic##N##_store(volatile T* a, T v, mo_t m) { AP(); __real___tsan_atomic##N##_store(a, v, m); }          \
  extern "C" T __real___tsan_atomic##N##_exchange(volatile T*, T, mo_t);                                                                    \
  extern "C" T __wrap___tsan_atomic##N##_exchange(volatile T* a, T v, mo_t m) { AP(); return __real___tsan_atomic##N##_exchange(a, v, m); } \
  extern "C" T __real___tsan_atomic##N##_fetch_add(volatile T*, T, mo_t);                                                                   \
  extern "C" T __wrap___tsan_atomic##N##_fetch_add(volatile T* a, T v, mo_t m) { AP(); return __real___tsan_atomic##N##_fetch_add(a, v, m); } \
  extern "C" T __real___tsan_atomic##N##_fetch_sub(volatile T*, T, mo_t);                                                                   \
  extern "C" T __wrap___tsan_atomic##N##_fetch_sub(volatile T* a, T v, mo_t m) { AP(); return __real___tsan_atomic##N##_fetch_sub(a, v, m); } \
  extern "C" int __real___tsan_atomic##N##_compare_exchange_strong(volatile T*, T*, T, mo_t, mo_t);                                         \
  extern "C" int __wrap___tsan_atomic##N##_compare_exchange_strong(volatile T* a, T* c, T v, mo_t m, mo_t f)                                \
  { AP(); return __real___tsan_atomic##N##_compare_exchange_strong(a, c, v, m, f); }                                                        \
  extern "C" int __real___tsan_atomic##N##_compare_exchange_weak(volatile T*, T*, T, mo_t, mo_t);                                           \
  extern "C" int __wrap___tsan_atomic##N##_compare_exchange_weak(volatile T* a, T* c, T v, mo_t m, mo_t f)                                  \
  { AP(); return __real___tsan_atomic##N##_compare_exchange_weak(a, c, v, m, f); }

WRAP_SIZE(8, uint8_t)
WRAP_SIZE(32, uint32_t)
WRAP_SIZE(64, uint64_t)
